// debugging helper (native): rsl <expr> : parse in MATH, print tree, both prints, conversions
#include "ccl/rslang/Parser.h"
#include "ccl/rslang/RSGenerator.h"
#include <cstdio>
using namespace ccl::rslang;
int main(int argc, char** argv) {
  for (int i = 1; i < argc; ++i) {
    std::string text = argv[i];
    Parser p;
    bool ok = p.Parse(text, Syntax::MATH);
    printf("input  : %s\nparse  : %d\n", text.c_str(), ok);
    if (!ok) { for (auto& e : p.Errors().All()) printf("  err %x at %d\n", e.eid, e.position); continue; }
    printf("tree   : %s\n", AST2String::Apply(p.AST()).c_str());
    std::string m = Generator::FromTree(p.AST(), Syntax::MATH), a = Generator::FromTree(p.AST(), Syntax::ASCII);
    printf("math   : %s\nascii  : %s\n", m.c_str(), a.c_str());
    std::string a1 = ConvertTo(text, Syntax::ASCII), a2 = ConvertTo(a1, Syntax::ASCII), m1 = ConvertTo(a1, Syntax::MATH);
    printf("toascii: [%s]\nagain  : [%s]\nback   : [%s]\n", a1.c_str(), a2.c_str(), m1.c_str());
    Parser q; bool ok2 = q.Parse(a, Syntax::ASCII);
    printf("reparse ascii: %d %s\n", ok2, ok2 ? AST2String::Apply(q.AST()).c_str() : "");
    Parser r; bool ok3 = r.Parse(m, Syntax::MATH);
    printf("reparse math : %d %s\n", ok3, ok3 ? AST2String::Apply(r.AST()).c_str() : "");
  }
}
