// shared helpers: a small fixed conceptual schema / model used as analysis context, and the
// spelling table of the MATH syntax (every token of MathLexerImpl.l at least once).
#pragma once
#include "ccl/semantic/RSForm.h"
#include "ccl/semantic/RSModel.h"
#include "ccl/rslang/StructuredData.h"
namespace hv {
using ccl::semantic::CstType;
// X1 X2 base, C1 constant, S1 in B(X1xX1), S2 in BB(X1), A1 axiom, D1 term, D2 integer term,
// F1 templated term-function, P1 predicate, T1 theorem
template <class SchemaLike> inline void BuildContext(SchemaLike& f) {
  f.Emplace(CstType::base);                                   // X1
  f.Emplace(CstType::base);                                   // X2
  f.Emplace(CstType::constant);                               // C1
  f.Emplace(CstType::structured, "\xE2\x84\xAC(X1\xC3\x97X1)");     // S1 ::= B(X1 x X1)
  f.Emplace(CstType::structured, "\xE2\x84\xAC\xE2\x84\xAC(X1)");   // S2 ::= BB(X1)
  f.Emplace(CstType::axiom, "X1=X1");                         // A1
  f.Emplace(CstType::term, "X1\\X1");                         // D1 : B(X1)
  f.Emplace(CstType::term, "card(X1)");                       // D2 : Z
  f.Emplace(CstType::function, "[\xCE\xB1\xE2\x88\x88\xE2\x84\xAC(R1), \xCE\xB2\xE2\x88\x88R1] \xCE\xB1\\{\xCE\xB2}");  // F1
  f.Emplace(CstType::predicate, "[\xCE\xB1\xE2\x88\x88\xE2\x84\xAC(R1)] \xCE\xB1=\xCE\xB1");                    // P1
  f.Emplace(CstType::theorem, "1=1");                         // T1
}
static const char* const MATH_TOKENS[] = {
  "+", "-", "*", ">", "<", "\xE2\x89\xA5", "\xE2\x89\xA4", "=", "\xE2\x89\xA0", "\xE2\x88\x80", "\xE2\x88\x83", "\xC2\xAC", "&", "\xE2\x88\xA8",
  "\xE2\x87\x92", "\xE2\x87\x94", ":\xE2\x88\x88", "\xE2\x88\x88", "\xE2\x88\x89", "\xE2\x8A\x86", "\xE2\x8A\x82", "\xE2\x8A\x84", "\xC3\x97",
  "\xE2\x88\xAA", "\xE2\x88\xA9", "\\", "\xE2\x88\x86", "\xE2\x84\xAC", "pr1", "pr0", "Pr1,2", "Fi1", "card", "bool", "red", "debool", "D", "R", "I",
  "Z", "\xE2\x88\x85", "1", "0", "F1", "P1", "R1", "X1", "C1", "S1", "S2", "A1", "D1", "D2", "T1", "X9", "a", "\xCE\xB1", ":=", ":==", "::=",
  "(", ")", "{", "}", "[", "]", "|", ",", ";", "\n"};
static const int N_MATH_TOKENS = sizeof(MATH_TOKENS) / sizeof(MATH_TOKENS[0]);
}  // namespace hv
