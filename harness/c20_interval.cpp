// C20 / interval algebra: StrRange relations against their end-point definitions, for all
// end points in the window [-W, W] (pure solver reasoning, no enumeration).
#include "sym.h"
#include "ccl/Strings.hpp"
#ifndef W
#define W 1073741824
#endif
using ccl::StrRange;
static int imax(int a, int b) { return a > b ? a : b; }
static int imin(int a, int b) { return a < b ? a : b; }
extern "C" void harness_main() {
  int as = sym_range(-W, W, "a.start"), af = sym_range(-W, W, "a.finish");
  int bs = sym_range(-W, W, "b.start"), bf = sym_range(-W, W, "b.finish");
  int cs = sym_range(-W, W, "c.start"), cf = sym_range(-W, W, "c.finish");
  sym_assume(as <= af && bs <= bf && cs <= cf);
  StrRange a{as, af}, b{bs, bf}, c{cs, cf};
  // end-point definitions (Allen)
  sym_assert(a.IsBefore(b) == (af < bs), "before");
  sym_assert(a.IsAfter(b) == (as > bf), "after");
  sym_assert(a.Meets(b) == (af == bs), "meets");
  sym_assert(a.Starts(b) == (as == bs && af < bf), "starts");
  sym_assert(a.Finishes(b) == (af == bf && as > bs), "finishes");
  sym_assert(a.IsDuring(b) == (as > bs && af < bf), "during");
  sym_assert((a == b) == (as == bs && af == bf), "equal");
  sym_assert((a != b) == !(as == bs && af == bf), "not-equal");
  sym_assert(a.length() == af - as, "length");
  sym_assert(a.empty() == (as == af), "empty");
  // duals and symmetry
  sym_assert(a.IsBefore(b) == b.IsAfter(a), "dual-before-after");
  sym_assert(a.SharesBorder(b) == b.SharesBorder(a), "sharesborder-symmetric");
  sym_assert(a.SharesBorder(b) == (af == bs || bf == as), "sharesborder");
  sym_assert(a.Overlaps(b) == b.Overlaps(a), "overlaps-symmetric");
  if (as < af && bs < bf) {
    sym_assert(a.Overlaps(b) == (imax(as, bs) < imin(af, bf)), "overlaps-nonempty");
    sym_assert(a.Contains(b) == (as <= bs && bf <= af), "contains-nonempty");
    sym_reach("nonempty");
  }
  int p = sym_range(-W, W, "pos");
  sym_assert(a.Contains(p) == (as <= p && p < af), "contains-pos");
  // intersection = point-set intersection when it has a point or the ranges touch; nullopt iff separated
  auto x = a.Intersect(b);
  int lo = imax(as, bs), hi = imin(af, bf);
  sym_assert(x.has_value() == (lo <= hi), "intersect-defined");
  if (x.has_value()) {
    sym_assert(x->start == lo && x->finish == hi, "intersect-value");
    sym_reach("intersect");
  }
  auto y = b.Intersect(a);
  sym_assert(x.has_value() == y.has_value(), "intersect-commutes-defined");
  if (x.has_value() && y.has_value()) sym_assert(*x == *y, "intersect-commutes");
  // merge = smallest covering range
  {
    StrRange m = StrRange::Merge({a, b, c});
    sym_assert(m.start == imin(as, imin(bs, cs)) && m.finish == imax(af, imax(bf, cf)), "merge3");
    StrRange m2 = StrRange::Merge({a, b});
    sym_assert(m2.start == imin(as, bs) && m2.finish == imax(af, bf), "merge2");
    StrRange m1 = StrRange::Merge({a});
    sym_assert(m1 == a, "merge1");
    StrRange m0 = StrRange::Merge({});
    sym_assert(m0.start == 0 && m0.finish == 0, "merge0");
  }
  // mutators (inside the window, so no overflow)
  int d = sym_range(0, 1 << 20, "amount");
  sym_assume(as > -W / 2 && af < W / 2);
  { StrRange t = a; t.Shift(d); sym_assert(t.start == as + d && t.finish == af + d, "shift"); }
  { StrRange t = a; t.Shift(-d); sym_assert(t.start == as - d && t.finish == af - d, "shift-negative"); }
  { StrRange t = a; t.SetLength(d); sym_assert(t.start == as && t.finish == as + d, "setlength"); }
  { StrRange t = a; t.CollapseEnd(); sym_assert(t.start == af && t.finish == af, "collapse-end"); }
  { StrRange t = a; t.CollapseStart(); sym_assert(t.start == as && t.finish == as, "collapse-start"); }
  { StrRange t = StrRange::FromLength(as, d); sym_assert(t.start == as && t.finish == as + d, "fromlength"); }
#ifdef WITNESS
  sym_assert(false, "witness");
#endif
}
