// C04 (JSON documents as input): schema / model load is total and only fails with the documented JSON error.
//  PART 1 (schema-doc): the document saved from a valid schema (X1 C1 S1 D1 D2 A1 F1 with a term, a manual word
//          form, a text definition, a convention and one tracking entry) receives MUT (1 / 2) structural mutations:
//          a symbolic node of the document tree (every object member and array element, at any depth) is deleted,
//          duplicated, or replaced by a value from a menu of other JSON types / out-of-range numbers / odd strings.
//          The mutated text goes to RSFormJA::FromJSON; if it loads, the loaded schema is saved again and queried.
//  PART 2 (model-doc): the same for the document of a model with data (base texts, structure value, calculated
//          flags), through nlohmann parse + ccl::semantic::from_json(RSModel); a loaded model is recalculated and saved.
//  PART 3 (numbers): tree level - one integer / boolean leaf under "data" (model) or "tracking" (schema) is replaced by
//          a fully symbolic int64 (referenced entityUID, flags), so references are solver variables (table cells: C16); from_json is called on the tree.
//  PART 4 (bytes): every byte string of at most DOCLEN bytes as the document text.
// Assertions: the call returns, or throws nlohmann::json::exception; anything else (other exception, terminate,
// engine-level fault) is reported by the engine / sym_native.
#include "sym.h"
#include "ccl/semantic/RSForm.h"
#include "ccl/semantic/RSModel.h"
#include "ccl/api/RSFormJA.h"
#include "ccl/tools/JSON.h"
#if PART == 5
#include "FakeSourceManager.hpp"
#include "ccl/oss/OSSchema.h"
#include "ccl/ops/RSOperations.h"
#endif
#include <string>
#include <vector>
#ifndef PART
#define PART 1
#endif
#ifndef MUT
#define MUT 1
#endif
#ifndef KINDS2
#define KINDS2 N_KINDS   /* kinds available to the second mutation (delete, duplicate, null, ...) */
#endif
#ifndef DOCLEN
#define DOCLEN 2
#endif
using namespace ccl;
using namespace ccl::semantic;
using JSON = nlohmann::ordered_json;
using Ptr = JSON::json_pointer;
static int pick(int n, const char* name) { return sym_concretize_i32(sym_range(0, n - 1, name)); }

static void collect(const JSON& j, const Ptr& at, std::vector<Ptr>& out) {
  if (j.is_object()) {
    for (auto it = j.begin(); it != j.end(); ++it) { Ptr p = at / it.key(); out.push_back(p); collect(it.value(), p, out); }
  } else if (j.is_array()) {
    for (size_t i = 0; i < j.size(); ++i) { Ptr p = at / i; out.push_back(p); collect(j[i], p, out); }
  }
}
static void collectInts(const JSON& j, const Ptr& at, std::vector<Ptr>& out) {
  if (j.is_object()) { for (auto it = j.begin(); it != j.end(); ++it) collectInts(it.value(), at / it.key(), out); }
  else if (j.is_array()) { for (size_t i = 0; i < j.size(); ++i) collectInts(j[i], at / i, out); }
  else if ((j.is_number_integer() || j.is_boolean()) && at.to_string().find("/value") == std::string::npos) out.push_back(at);   // compact-table cells: C16
}

static const int N_KINDS = 17;
static void mutate(JSON& doc, const Ptr& p, int kind) {
  Ptr parent = p.parent_pointer();
  JSON& par = doc[parent];
  switch (kind) {
  case 0:  if (par.is_object()) par.erase(p.back()); else par.erase((size_t)std::stoul(p.back())); break;
  case 1:  if (par.is_array()) par.push_back(JSON(doc[p])); else par["copy"] = JSON(doc[p]); break;
  case 2:  doc[p] = nullptr; break;
  case 3:  doc[p] = true; break;
  case 4:  doc[p] = 0; break;
  case 5:  doc[p] = -1; break;
  case 6:  doc[p] = 4294967297LL; break;
  case 7:  doc[p] = 1.5; break;
  case 8:  doc[p] = ""; break;
  case 9:  doc[p] = "X1"; break;
  case 10: doc[p] = "@{X1|"; break;
  case 11: doc[p] = JSON::array(); break;
  case 12: doc[p] = JSON::object(); break;
  case 13: doc[p] = JSON::array({JSON::array({1})}); break;
  case 14: doc[p] = 7; break;
  case 15: doc[p] = JSON::array({1, 2, 3}); break;
  default: doc[p] = "\xE2\x84\xAC("; break;
  }
}

static RSForm makeSchema() {
  RSForm a;
  a.title = "t"; a.alias = "s"; a.comment = "c";
  const auto x1 = a.Emplace(CstType::base);
  (void)a.Emplace(CstType::constant);
  (void)a.Emplace(CstType::structured, "\xE2\x84\xAC(X1\xC3\x97X1)");
  const auto d1 = a.Emplace(CstType::term, "X1\\X1");
  const auto d2 = a.Emplace(CstType::term, "D1\xE2\x88\xAAX1");
  (void)a.Emplace(CstType::axiom, "D1=D2");
  (void)a.Emplace(CstType::function, "[\xCE\xB1\xE2\x88\x88\xE2\x84\xAC(R1)] \xCE\xB1\\\xCE\xB1");
  a.SetTermFor(d1, "term @{X1|nomn}");
  a.SetTermFormFor(d1, "form", lang::Morphology{"sing,gent"});
  a.SetDefinitionFor(d2, "def @{D1|plur}");
  a.SetConventionFor(x1, "conv");
  TrackingFlags flags; flags.term = true;
  a.Mods().Track(d1, flags);
  return a;
}
static JSON makeModelDoc() {
  RSModel m;
  const auto x1 = m.Emplace(CstType::base);
  const auto s1 = m.Emplace(CstType::structured, "\xE2\x84\xAC(X1\xC3\x97X1)");
  (void)m.Emplace(CstType::term, "Pr1(S1)");
  (void)m.Emplace(CstType::axiom, "S1=S1");
  TextInterpretation t; t.PushBack("a"); t.PushBack("b");
  m.Values().SetBasicText(x1, t);
  using object::Factory;
  m.Values().SetStructureData(s1, Factory::Set({Factory::Tuple({Factory::Val(1), Factory::Val(2)})}));
  m.Calculations().RecalculateAll();
  JSON doc; to_json(doc, m);
  return doc;
}

static void useSchema(const RSForm& s) {
  for (const auto uid : s.List()) {
    (void)s.GetParse(uid).status; (void)s.GetRS(uid).alias; (void)s.GetText(uid).term.Nominal();
  }
  JSON again(s);
  (void)again.dump();
}
static void useModel(RSModel& m) {
  JSON again; to_json(again, m);
  (void)again.dump();
  m.Calculations().RecalculateAll();
  JSON after; to_json(after, m);
  (void)after.dump();
}

extern "C" void harness_main() {
#if PART == 1 || PART == 2
#if PART == 1
  JSON doc(makeSchema());
#else
  JSON doc = makeModelDoc();
#endif
  for (int k = 0; k < MUT; ++k) {
    std::vector<Ptr> nodes; collect(doc, Ptr{}, nodes);
    const int at = pick((int)nodes.size(), k == 0 ? "node" : "node2");
    const int kind = k == 0 ? pick(N_KINDS, "kind") : pick(KINDS2, "kind2");
    mutate(doc, nodes[(size_t)at], kind);
  }
  const std::string text = doc.dump();
  sym_note(text.c_str());
#if PART == 1
  try {
    auto loaded = api::RSFormJA::FromJSON(text);
    sym_reach("loaded");
    useSchema(loaded.data());
    (void)loaded.ToJSON();
    (void)loaded.CheckExpression("X1\xE2\x88\xAA" "D1", rslang::Syntax::MATH);
  } catch (const nlohmann::json::exception&) { sym_reach("json-error"); }
#else
  try {
    const auto tree = JSON::parse(text);
    RSModel m;
    from_json(tree, m);
    sym_reach("loaded");
    useModel(m);
  } catch (const nlohmann::json::exception&) { sym_reach("json-error"); }
#endif
#elif PART == 3
  const bool model = sym_bool("model-document");
  JSON doc = model ? makeModelDoc() : JSON(makeSchema());
  std::vector<Ptr> ints;                      // references to constituents and data cells; the defining identifiers under /items get the menu of PART 1/2
  if (model) collectInts(doc["data"], Ptr{"/data"}, ints); else collectInts(doc["tracking"], Ptr{"/tracking"}, ints);
  const int at = pick((int)ints.size(), "integer-leaf");
  sym_note(ints[(size_t)at].to_string().c_str());
  doc[ints[(size_t)at]] = (int64_t)sym_i64("value");
  try {
    if (model) { RSModel m; from_json(doc, m); sym_reach("loaded"); useModel(m); }
    else { RSForm s; from_json(doc, s); sym_reach("loaded"); useSchema(s); }
  } catch (const nlohmann::json::exception&) { sym_reach("json-error"); }
#elif PART == 5
  // operation-schema document: two bases, an operation with an equation table and stored translations, one further operation
  Environment::Instance().SetSourceManager(std::make_unique<FakeSourceManager>());
  JSON doc;
#ifdef OSS_NUMBERS
  const bool numbers = true;
#else
  const bool numbers = false;
#endif
  {
    oss::OSSchema o;
    o.title = "t"; o.comment = "c";
    const auto b1 = o.InsertBase()->uid, b2 = o.InsertBase()->uid;
    const auto o3 = o.InsertOperation(b1, b2)->uid;
    (void)o.InsertOperation(b1, o3);
    o.SetPictAlias(b1, "a"); o.SetPictLink(b2, oss::MediaLink{"addr", "sub"});
    auto opts = std::make_unique<ops::EquationOptions>(11u, 12u, ops::Equation{ops::Equation::Mode::keepDel, "term"});
    (void)o.Ops().InitFor(o3, ops::Type::rsSynt, std::move(opts));
    doc = o;
    // stored translations as the library writes them
    doc["items"][2]["attachedOperation"]["translations"] = JSON::array({JSON::array({JSON::array({1, 2})}), JSON::array({JSON::array({3, 4}), JSON::array({5, 6})})});
  }
  JSON tree;
  if (numbers) {        // every integer / boolean leaf (pictogram ids, grid cells, flags, identifiers in equations and translations) symbolic, one at a time
    std::vector<Ptr> ints; collectInts(doc, Ptr{}, ints);
    const int at = pick((int)ints.size(), "integer-leaf");
    sym_note(ints[(size_t)at].to_string().c_str());
    doc[ints[(size_t)at]] = (int64_t)sym_i64("value");
    tree = doc;
  } else {
    for (int k = 0; k < MUT; ++k) {
      std::vector<Ptr> nodes; collect(doc, Ptr{}, nodes);
      const int at = pick((int)nodes.size(), k == 0 ? "node" : "node2");
      const int kind = k == 0 ? pick(N_KINDS, "kind") : pick(KINDS2, "kind2");
      mutate(doc, nodes[(size_t)at], kind);
    }
    const std::string text = doc.dump();
    sym_note(text.c_str());
    try { tree = JSON::parse(text); } catch (const nlohmann::json::exception&) { sym_reach("json-error"); return; }
  }
  try {
    oss::OSSchema loaded;
    from_json(tree, loaded);
    sym_reach("loaded");
    for (const auto& pict : loaded) { (void)loaded.Graph().ParentsOf(pict.uid); (void)loaded.Graph().ChildrenOf(pict.uid); (void)loaded.Grid()(pict.uid); (void)loaded.Src()(pict.uid); (void)loaded.Ops()(pict.uid); }
    (void)loaded.Graph().ExecuteOrder();
    JSON again(loaded);
    (void)again.dump();
  } catch (const nlohmann::json::exception&) { sym_reach("json-error"); }
#else
  const int n = pick(DOCLEN + 1, "length");
  char buf[DOCLEN + 1];
  sym_bytes(buf, DOCLEN, "doc");
  const std::string_view text(buf, (size_t)n);
  try {
    auto loaded = api::RSFormJA::FromJSON(text);
    sym_reach("loaded");
    useSchema(loaded.data());
  } catch (const nlohmann::json::exception&) { sym_reach("json-error"); }
#endif
#ifdef WITNESS
  sym_assert(false, "witness");
#endif
}
