// shared token-stream generators for the parser harnesses (C05, C06, C18): free streams over a
// sub-alphabet (ALPHA 1..5, at most L tokens, ids symbolic) and skeleton families with symbolic
// operators (ALPHA 11 logic, 12 set/arithmetic).
#pragma once
#include "sym.h"
#include "ccl/rslang/Parser.h"
#include "ccl/rslang/RSParser.h"
#include "ccl/rslang/SyntaxTree.h"
#include <vector>
#ifndef L
#define L 3
#endif
#ifndef ALPHA
#define ALPHA 1
#endif
namespace hv {
#ifdef CONCRETE_TOKENS
inline int pickTok(int lo, int hi, const char* name) { return sym_concretize_i32(sym_range(lo, hi, name)); }
#else
inline int pickTok(int lo, int hi, const char* name) { return sym_range(lo, hi, name); }
#endif
using namespace ccl;
using namespace ccl::rslang;
using T = TokenID;
#if ALPHA == 1     // logic
static const T ALPHABET[] = {T::ID_GLOBAL, T::EQUAL, T::NOT, T::AND, T::OR, T::IMPLICATION, T::EQUIVALENT, T::FORALL, T::EXISTS, T::ID_LOCAL, T::IN, T::PUNC_PL, T::PUNC_PR};
#elif ALPHA == 2   // set expressions and arithmetic
static const T ALPHABET[] = {T::ID_GLOBAL, T::LIT_INTEGER, T::PLUS, T::MINUS, T::MULTIPLY, T::UNION, T::INTERSECTION, T::SET_MINUS, T::SYMMINUS, T::DECART, T::BOOLEAN, T::PUNC_PL, T::PUNC_PR, T::PUNC_COMMA};
#elif ALPHA == 3   // constructors
static const T ALPHABET[] = {T::ID_GLOBAL, T::ID_LOCAL, T::PUNC_CL, T::PUNC_CR, T::PUNC_BAR, T::DECLARATIVE, T::RECURSIVE, T::IMPERATIVE, T::IN, T::ASSIGN, T::ITERATE, T::PUNC_SEMICOLON, T::EQUAL, T::PUNC_COMMA};
#elif ALPHA == 4   // calls, projections, filters, text operators, declarations
static const T ALPHABET[] = {T::ID_GLOBAL, T::ID_FUNCTION, T::ID_PREDICATE, T::PUNC_SL, T::PUNC_SR, T::PUNC_PL, T::PUNC_PR, T::PUNC_COMMA, T::SMALLPR, T::BIGPR, T::FILTER, T::CARD, T::DEBOOL, T::PUNC_DEFINE, T::PUNC_STRUCT, T::ID_LOCAL, T::IN};
#elif ALPHA == 5   // predicates
static const T ALPHABET[] = {T::ID_GLOBAL, T::LIT_INTEGER, T::LIT_EMPTYSET, T::LIT_INTSET, T::IN, T::NOTIN, T::SUBSET, T::SUBSET_OR_EQ, T::NOTSUBSET, T::GREATER, T::LESSER, T::GREATER_OR_EQ, T::LESSER_OR_EQ, T::NOTEQUAL, T::EQUAL, T::AND};
#else
static const T ALPHABET[] = {T::ID_GLOBAL};
#endif
static const int NALPHA = sizeof(ALPHABET) / sizeof(ALPHABET[0]);

inline Token makeToken(T id, int index) {
  Token t;
  t.id = id;
  t.pos = StrRange{2 * index, 2 * index + 1};
  switch (id) {
  case T::ID_GLOBAL: t.data = TokenData{std::string{"X1"}}; break;
  case T::ID_LOCAL: t.data = TokenData{std::string{"a"}}; break;
  case T::ID_FUNCTION: t.data = TokenData{std::string{"F1"}}; break;
  case T::ID_PREDICATE: t.data = TokenData{std::string{"P1"}}; break;
  case T::LIT_INTEGER: t.data = TokenData{int32_t{1}}; break;
  case T::SMALLPR: t.data = TokenData{std::vector<Index>{1}}; break;
  case T::BIGPR: t.data = TokenData{std::vector<Index>{1, 2}}; break;
  case T::FILTER: t.data = TokenData{std::vector<Index>{1}}; break;
  default: break;
  }
  return t;
}
static const T LOGIC_OPS[] = {T::AND, T::OR, T::IMPLICATION, T::EQUIVALENT};
static const T SET_OPS[] = {T::PLUS, T::MINUS, T::MULTIPLY, T::UNION, T::INTERSECTION, T::SET_MINUS, T::SYMMINUS, T::DECART};
static const char* const LOGIC_SKELETONS[] = {"AoAoA", "(AoA)oA", "Ao(AoA)", "nAoA", "n(AoA)oA", "qAoA", "q(AoA)oA", "AoqAoA", "AonA", "((AoA))oA", "AoAoAoA", "qnA", "nqA", "nnA"};
static const char* const SET_SKELETONS[] = {"XsXsX", "(XsX)sX", "Xs(XsX)", "XsXsXsX", "(XsX)sXsX", "Xs(XsXsX)", "((XsX))sX", "b(XsX)sX", "Xsb(X)", "bb(X)sX", "(XsXsX)sX", "XsX=XsX", "XsXeXsX"};
inline std::vector<Token> GenTokens() {
  std::vector<Token> tokens;
#if ALPHA >= 11
  {
    const char* sk;
    if (ALPHA == 11) sk = LOGIC_SKELETONS[sym_concretize_i32(sym_range(0, (int)(sizeof(LOGIC_SKELETONS) / sizeof(char*)) - 1, "skeleton"))];
    else sk = SET_SKELETONS[sym_concretize_i32(sym_range(0, (int)(sizeof(SET_SKELETONS) / sizeof(char*)) - 1, "skeleton"))];
    auto add = [&](T id) { tokens.push_back(makeToken(id, (int)tokens.size())); };
    for (const char* p = sk; *p; ++p) switch (*p) {
      case 'A': add(T::ID_GLOBAL); add(T::EQUAL); add(T::ID_GLOBAL); break;
      case 'X': add(T::ID_GLOBAL); break;
      case 'o': add(LOGIC_OPS[pickTok(0, 3, "logic-op")]); break;
      case 's': add(SET_OPS[pickTok(0, 7, "set-op")]); break;
      case '(': add(T::PUNC_PL); break;
      case ')': add(T::PUNC_PR); break;
      case 'n': add(T::NOT); break;
      case 'b': add(T::BOOLEAN); break;
      case '=': add(T::EQUAL); break;
      case 'e': add(T::IN); break;
      case 'q': add(sym_bool("exists") ? T::EXISTS : T::FORALL); add(T::ID_LOCAL); add(T::IN); add(T::ID_GLOBAL); break;
    }
  }
#else
  int n = sym_concretize_i32(sym_range(1, L, "ntokens"));
  for (int i = 0; i < n; ++i) {
    int k = pickTok(0, NALPHA - 1, "token");
    T id = ALPHABET[k];
    tokens.push_back(makeToken(id, i));
  }
#endif
  return tokens;
}
}  // namespace hv
