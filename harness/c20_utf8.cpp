// C20 / utf8: code-point iteration, SizeInCodePoints, Substr against the reference decoder,
// for every well-formed UTF-8 string of at most N bytes (all byte values symbolic).
#include "sym.h"
#include "ccl/Strings.hpp"
#include "ref_utf8.h"
#ifndef N
#define N 4
#endif
extern "C" void harness_main() {
  unsigned char buf[N + 1];
  sym_bytes(buf, N, "text");
  buf[N] = 0;
  int n = sym_concretize_i32(sym_range(0, N, "len"));
  ref::Utf8Layout L = ref::DecodeUtf8(buf, n);
  sym_assume(L.ok);
  std::string_view s(reinterpret_cast<const char*>(buf), (size_t)n);

  int k = 0;
  auto it = ccl::UTF8Begin(s);
  const auto end = ccl::UTF8End(s);
  for (; it != end && k <= N; ++it, ++k) {
    sym_assert(k < L.count, "iter-too-many");
    if (k >= L.count) break;
    sym_assert(it.Position() == k, "iter-position");
    sym_assert((int)it.BytePosition() == L.off[k], "iter-byteoffset");
    sym_assert((int)it.SymbolSize() == L.size[k], "iter-symbolsize");
    sym_assert(*it == (char)buf[L.off[k]], "iter-deref");
  }
  sym_assert(k == L.count, "iter-count");
  sym_assert(ccl::SizeInCodePoints(s) == L.count, "size-in-codepoints");
  sym_reach("iterated");

  int a = sym_range(-2, N + 2, "a");
  int b = sym_range(-2, N + 2, "b");
  sym_assume(a <= b);
  a = sym_concretize_i32(a);
  b = sym_concretize_i32(b);
  std::string_view sub = ccl::Substr(s, ccl::StrRange{a, b});
  if (0 <= a && a < b && b <= L.count) {
    sym_assert((int)sub.size() == L.off[b] - L.off[a], "substr-size");
    sym_assert(sub.data() == s.data() + L.off[a], "substr-start");
    sym_reach("substr-inrange");
  } else {
    sym_assert(sub.empty(), "substr-empty-when-out-of-range");
  }
#ifdef WITNESS
  sym_assert(false, "witness");
#endif
}
