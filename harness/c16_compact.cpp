// C16: compact data encoding.
//  PART 1 (round trip): for each of the 14 typifications and every compatible value with at most
//          LEAVES basic elements (symbolic int32) and set sizes 0..K at every level:
//          Unpack(FromSData(v,t).data, t) == v.
//  PART 2 (decoder safety): a table of R rows with symbolic lengths 0..C and fully symbolic int32
//          cells: Unpack never faults / throws; a returned value is fully compatible with the type
//          and survives Pack/Unpack.
#include "sym.h"
#include "h_types.h"
#include "ccl/rslang/SDataCompact.h"
using namespace ccl;
using object::Factory; using object::SDCompact; using object::StructuredData; using rslang::Typification;
#ifndef K
#define K 2
#endif
#ifndef LEAVES
#define LEAVES 4
#endif
#ifndef R
#define R 2
#endif
#ifndef C
#define C 4
#endif
static int leaves = 0;
static StructuredData gen(const Typification& t) {
  switch (t.Structure()) {
  case rslang::StructureType::basic:
    if (++leaves > LEAVES) sym_assume(false);
    return Factory::Val(sym_i32("leaf"));
  case rslang::StructureType::tuple: {
    std::vector<StructuredData> comps;
    for (rslang::Index i = Typification::PR_START; i < Typification::PR_START + t.T().Arity(); ++i) comps.push_back(gen(t.T().Component(i)));
    return Factory::Tuple(comps);
  }
  default: {
    int n = sym_concretize_i32(sym_range(0, K, "setsize"));
    std::vector<StructuredData> elems;
    for (int i = 0; i < n; ++i) elems.push_back(gen(t.B().Base()));
    return Factory::Set(elems);
  }
  }
}
extern "C" void harness_main() {
  int ti = sym_concretize_i32(sym_range(0, hv::NTYPES - 1, "type"));
  const Typification t = hv::TypeNo(ti);
#if PART == 1
  StructuredData v = gen(t);
  sym_assert(hv::FullCompat(v, t), "generated-value-compatible");
  SDCompact packed = SDCompact::FromSData(v, t);
  auto u = SDCompact::Unpack(packed.data, t);
  sym_assert(u.has_value(), "roundtrip-unpacks");
  if (u.has_value()) sym_assert(*u == v, "roundtrip-equal");
  sym_assert(packed.header == SDCompact::CreateHeader(t), "header");
  sym_reach("roundtrip");
#else
  SDCompact::Data table;
  int rows = sym_concretize_i32(sym_range(0, R, "rows"));
  for (int r = 0; r < rows; ++r) {
    int len = sym_concretize_i32(sym_range(0, C, "rowlen"));
    std::vector<int32_t> row;
    for (int c = 0; c < len; ++c) row.push_back(sym_i32("cell"));
    table.push_back(row);
  }
  auto u = SDCompact::Unpack(table, t);   // must not fault or throw for any table
  if (u.has_value()) {
    sym_assert(hv::FullCompat(*u, t), "decoded-value-compatible");
    SDCompact again = SDCompact::FromSData(*u, t);
    auto w = SDCompact::Unpack(again.data, t);
    sym_assert(w.has_value() && *w == *u, "decoded-value-roundtrips");
    sym_reach("decoded");
  } else sym_reach("rejected");
#endif
#ifdef WITNESS
  sym_assert(false, "witness");
#endif
}
