// C14: CGraph against the mathematical graph, after every history of the form
//   E x AddConnection(s,d) ; optional EraseItem ; one more symbolic mutator
// over a universe of NV identifiers, with every argument symbolic; all queries are then compared
// with the bit-matrix reference (refs/ref_graph.h).
#include "sym.h"
#include "ccl/graph/CGraph.h"
#include "ref_graph.h"
#ifndef NV
#define NV 3
#endif
#ifndef NE
#define NE 2
#endif
using ccl::EntityUID;
using ccl::graph::CGraph;
static const EntityUID UID0 = 10;
static EntityUID uidOf(int k) { return UID0 + (EntityUID)k; }
static int pick(const char* name) { return sym_concretize_i32(sym_range(0, NV - 1, name)); }
static unsigned pickMask(const char* name) { return (unsigned)sym_concretize_i32(sym_range(0, (1 << NV) - 1, name)); }
static CGraph::UnorderedItems setOf(unsigned mask) {
  CGraph::UnorderedItems s;
  for (int i = 0; i < NV; ++i) if (mask & (1u << i)) s.insert(uidOf(i));
  return s;
}
template <class C> static unsigned maskOf(const C& c, bool& wellFormed) {
  unsigned m = 0;
  for (EntityUID u : c) {
    if (u < UID0 || u >= UID0 + NV) { wellFormed = false; continue; }
    unsigned bit = 1u << (u - UID0);
    if (m & bit) wellFormed = false;   // duplicates
    m |= bit;
  }
  return m;
}

static void checkAll(const CGraph& g, const ref::Graph& r) {
  bool reach[ref::Graph::U][ref::Graph::U];
  r.Closure(reach);
  unsigned liveMask = 0;
  for (int i = 0; i < NV; ++i) if (r.live[i]) liveMask |= 1u << i;
  sym_assert(g.ItemsCount() == r.ItemsCount(), "items-count");
  sym_assert(g.ConnectionsCount() == r.ConnectionsCount(), "connections-count");
  for (int i = 0; i < NV; ++i) {
    sym_assert(g.Contains(uidOf(i)) == r.live[i], "contains");
    bool wf = true;
    sym_assert(maskOf(g.InputsFor(uidOf(i)), wf) == r.Inputs(i) && wf, "inputs-for");
    for (int j = 0; j < NV; ++j) {
      sym_assert(g.ConnectionExists(uidOf(i), uidOf(j)) == r.edge[i][j], "connection-exists");
      if (i != j) sym_assert(g.IsReachableFrom(uidOf(j), uidOf(i)) == reach[i][j], "is-reachable-from");
      else if (r.edge[i][i]) sym_assert(g.IsReachableFrom(uidOf(i), uidOf(i)), "is-reachable-self-loop");
    }
  }
  sym_assert(!g.Contains(UID0 + NV) && !g.Contains(0), "contains-foreign");
  sym_assert(g.HasLoop() == r.HasLoop(), "has-loop");
  // groups of items lying on cycles = exactly the cyclic strongly connected components
  {
    auto groups = g.GetAllLoopsItems();
    unsigned seen = 0;
    bool ok = true;
    for (const auto& grp : groups) {
      bool wf = true;
      unsigned m = maskOf(grp, wf);
      if (!wf || m == 0) { ok = false; continue; }
      int first = 0; while (!(m & (1u << first))) ++first;
      if (r.CyclicComponent(first) != m) ok = false;   // must be exactly one cyclic SCC
      if (seen & m) ok = false;                         // no overlaps / duplicates
      seen |= m;
    }
    unsigned expect = 0;
    for (int i = 0; i < NV; ++i) if (reach[i][i]) expect |= 1u << i;
    sym_assert(ok, "loops-items-are-cyclic-components");
    sym_assert(seen == expect, "loops-items-cover-all-cycles");
  }
  // orders
  {
    auto order = g.TopologicalOrder();
    bool wf = true;
    unsigned m = maskOf(order, wf);
    sym_assert(wf && m == liveMask && (int)order.size() == r.ItemsCount(), "topological-each-live-item-once");
    if (wf && m == liveMask && !r.HasLoop()) {
      int pos[ref::Graph::U];
      for (int k = 0; k < (int)order.size(); ++k) pos[order[k] - UID0] = k;
      bool sorted = true;
      for (int i = 0; i < NV; ++i) for (int j = 0; j < NV; ++j) if (r.edge[i][j] && !(pos[i] < pos[j])) sorted = false;
      sym_assert(sorted, "topological-sources-before-targets");
      sym_reach("acyclic-order");
    }
    auto inv = g.InverseTopologicalOrder();
    bool rev = inv.size() == order.size();
    for (size_t k = 0; rev && k < order.size(); ++k) if (inv[k] != order[order.size() - 1 - k]) rev = false;
    sym_assert(rev, "inverse-order-is-reverse");
    // closures and subset sorting
    for (unsigned sub = 0; sub < (1u << NV); ++sub) {   // every subset (may contain erased / never added items)
    bool w1 = true, w2 = true, w3 = true;
    sym_assert(maskOf(g.ExpandOutputs(setOf(sub)), w1) == r.ExpandOutputs(sub) && w1, "expand-outputs");
    sym_assert(maskOf(g.ExpandInputs(setOf(sub)), w2) == r.ExpandInputs(sub) && w2, "expand-inputs");
    auto sorted = g.Sort(setOf(sub));
    unsigned sm = maskOf(sorted, w3);
    sym_assert(w3 && sm == (sub & liveMask), "sort-members");
    size_t k = 0;   // sorted must be a subsequence of order
    for (size_t i = 0; i < order.size() && k < sorted.size(); ++i) if (order[i] == sorted[k]) ++k;
    sym_assert(k == sorted.size(), "sort-preserves-order");
    }
  }
}

extern "C" void harness_main() {
  CGraph g;
  ref::Graph r;
  int ne = sym_concretize_i32(sym_range(0, NE, "edges"));
  for (int e = 0; e < ne; ++e) {
    int s = pick("src"), d = pick("dst");
    g.AddConnection(uidOf(s), uidOf(d));
    r.AddConnection(s, d);
  }
  if (sym_bool("erase-one")) {
    int v = pick("erased");
    g.EraseItem(uidOf(v));
    r.EraseItem(v);
    sym_reach("tombstone");
  }
  int op = sym_concretize_i32(sym_range(0, 5, "op"));
  switch (op) {
  case 0: break;
  case 1: { int v = pick("add"); g.AddItem(uidOf(v)); r.AddItem(v); break; }
  case 2: { int v = pick("erase"); g.EraseItem(uidOf(v)); r.EraseItem(v); break; }
  case 3: { int s = pick("src2"), d = pick("dst2"); g.AddConnection(uidOf(s), uidOf(d)); r.AddConnection(s, d); break; }
  case 4: { int v = pick("item"); unsigned m = pickMask("inputs"); g.SetItemInputs(uidOf(v), setOf(m)); r.SetItemInputs(v, m); sym_reach("set-inputs"); break; }
  case 5: {
    if (sym_bool("clear")) { g.Clear(); r.Clear(); }
    else {  // UpdatableGraph::UpdateFor, valid and invalidated
      unsigned m = pickMask("upd-inputs"); int v = pick("upd-item");
      ccl::graph::UpdatableGraph ug([m](EntityUID) { return setOf(m); });
      static_cast<CGraph&>(ug) = g;
      bool broken = sym_bool("broken");
      if (broken) ug.Invalidate();
      ug.UpdateFor(uidOf(v));
      if (!broken) r.SetItemInputs(v, m);
      checkAll(ug, r);
      sym_reach("updatable");
      return;
    }
    break;
  }
  }
  checkAll(g, r);
  // copies are independent values
  {
    CGraph copy = g;
    copy.AddConnection(uidOf(0), uidOf(NV - 1));
    copy.EraseItem(uidOf(0));
    checkAll(g, r);
  }
  sym_reach("checked");
#ifdef WITNESS
  sym_assert(false, "witness");
#endif
}
