// C09 / unit level (one step from an arbitrary valid state):
//  PART 1: CstList with N constituents whose kinds are a SYMBOLIC array satisfying the group order
//          (base < constant < structured < rest): Insert of a symbolic kind, MoveBefore(what, where)
//          with symbolic positions, Erase: every uid stays listed once, the group order is kept, a
//          refused move changes nothing, SortSubset keeps list order.
//  PART 2: IdentityManager: K operations from {GenerateNewID, RegisterID, RegisterEntity, TryAlias,
//          Erase} with symbolic uids from a small pool and alias strings with symbolic letter/digit
//          (also ill-formed): issued uids and aliases are pairwise distinct, the alias letter matches
//          the kind, a refused TryAlias changes nothing.
#include "sym.h"
#include "ccl/semantic/CstList.h"
#include "ccl/semantic/IdentityManager.h"
#include <string>
#include <vector>
#include <set>
#ifndef N
#define N 4
#endif
#ifndef K
#define K 2
#endif
#ifndef PART
#define PART 1
#endif
using namespace ccl;
using namespace ccl::semantic;
static const CstType KINDS[] = {CstType::base, CstType::constant, CstType::structured, CstType::axiom, CstType::term, CstType::function, CstType::theorem, CstType::predicate};
static int groupOf(CstType t) { return t == CstType::base ? 1 : t == CstType::constant ? 2 : t == CstType::structured ? 3 : 4; }
static char letterOf(CstType t) {
  switch (t) { case CstType::base: return 'X'; case CstType::constant: return 'C'; case CstType::structured: return 'S'; case CstType::axiom: return 'A';
    case CstType::term: return 'D'; case CstType::function: return 'F'; case CstType::theorem: return 'T'; case CstType::predicate: return 'P'; default: return '?'; }
}
static int pick(int n, const char* name) { return sym_concretize_i32(sym_range(0, n - 1, name)); }

#if PART != 3
extern "C" void harness_main() {
#if PART == 1
  CstType kinds[N + 2];
  const int n = sym_concretize_i32(sym_range(0, N, "size"));
  for (int i = 0; i < N + 2; ++i) kinds[i] = KINDS[sym_range(0, 7, "kind")];     // symbolic kinds
  for (int i = 0; i + 1 < n; ++i) sym_assume(groupOf(kinds[i]) <= groupOf(kinds[i + 1]));
  CstList list([&](EntityUID uid) { return kinds[uid - 100]; });
  for (int i = 0; i < n; ++i) list.order.push_back(100 + (EntityUID)i);          // direct construction of a valid state
  auto snapshot = [&]() { std::vector<EntityUID> v; for (const auto u : list) v.push_back(u); return v; };
  auto checkOrder = [&](const char* tagOnce, const char* tagOrder, size_t expectSize) {
    const auto v = snapshot();
    std::set<EntityUID> seen;
    bool once = v.size() == expectSize, ordered = true;
    int last = 0;
    for (const auto u : v) { if (!seen.insert(u).second) once = false; const int g = groupOf(kinds[u - 100]); if (g < last) ordered = false; last = g; }
    sym_assert(once, tagOnce);
    sym_assert(ordered, tagOrder);
  };
  const int op = pick(3, "op");
  if (op == 0) {
    list.Insert(100 + (EntityUID)n);      // kind of the new element is kinds[n], symbolic
    checkOrder("insert-each-once", "insert-keeps-group-order", (size_t)n + 1);
    sym_assert(list.Find(100 + (EntityUID)n) != list.end(), "insert-listed");
    sym_reach("insert");
  } else if (op == 1 && n > 0) {
    const auto before = snapshot();
    const int what = pick(n, "what"), where = pick(n + 1, "where");
    auto it = list.begin(); for (int i = 0; i < where; ++i) ++it;
    const bool moved = list.MoveBefore(before[(size_t)what], it);
    checkOrder("move-each-once", "move-keeps-group-order", (size_t)n);
    if (!moved) { sym_assert(snapshot() == before, "refused-move-changes-nothing"); sym_reach("move-refused"); }
    else {
      // the element now sits right before the element that was at `where` (or at the end)
      const auto after = snapshot();
      std::vector<EntityUID> expect;
      for (int i = 0; i <= n; ++i) {
        if (i == where) expect.push_back(before[(size_t)what]);
        if (i < n && i != what) expect.push_back(before[(size_t)i]);
      }
      sym_assert(after == expect, "move-result");
      sym_reach("move-done");
    }
    sym_assert(!list.MoveBefore(999, list.begin()), "move-unknown-refused");
  } else if (op == 2 && n > 0) {
    const auto before = snapshot();
    const int what = pick(n, "erase");
    list.Erase(before[(size_t)what]);
    checkOrder("erase-each-once", "erase-keeps-group-order", (size_t)n - 1);
    sym_assert(list.Find(before[(size_t)what]) == list.end(), "erased-not-listed");
    sym_reach("erase");
  }
  // SortSubset keeps the list order
  {
    const auto v = snapshot();
    SetOfEntities sub;
    for (size_t i = 0; i < v.size(); i += 2) sub.insert(v[i]);
    sub.insert(555);
    const auto sorted = list.SortSubset(sub);
    size_t k = 0;
    for (size_t i = 0; i < v.size() && k < sorted.size(); ++i) if (v[i] == sorted[k]) ++k;
    sym_assert(sub.size() <= 1 || (k == sorted.size() && sorted.size() == (v.size() + 1) / 2), "sortsubset-keeps-order");
  }
#else
  IdentityManager mgr;
  struct Entry { EntityUID uid; std::string alias; CstType type; };
  std::vector<Entry> issued;
  auto check = [&]() {
    for (size_t i = 0; i < issued.size(); ++i) {
      sym_assert(!issued[i].alias.empty() && issued[i].alias[0] == letterOf(issued[i].type), "alias-letter-matches-kind");
      for (size_t j = i + 1; j < issued.size(); ++j) {
        sym_assert(issued[i].uid != issued[j].uid, "uids-distinct");
        sym_assert(issued[i].alias != issued[j].alias, "aliases-distinct");
      }
    }
  };
  auto genAlias = [&]() {
#ifdef FULL_MENU
    static const char LETTERS[] = {'X', 'C', 'S', 'A', 'D', 'F', 'T', 'P', 'x', '1'};
    std::string a(1, LETTERS[pick(10, "letter")]);
    const int form = pick(4, "alias-form");
#else
    static const char LETTERS[] = {'X', 'D', 'A', 'F', 'x', '1'};
    std::string a(1, LETTERS[pick(6, "letter")]);
    const int form = 1 + pick(3, "alias-form");
#endif
    if (form == 0) a += "1"; else if (form == 1) a += "2"; else if (form == 2) a += "12"; /* form 3: no digits (ill-formed) */
    return a;
  };
  for (int step = 0; step < K; ++step) {
#ifdef FULL_MENU
    const CstType type = KINDS[pick(8, "type")];
#else
    static const CstType FEW[] = {CstType::base, CstType::term, CstType::axiom, CstType::function};
    const CstType type = FEW[pick(4, "type")];
#endif
    switch (pick(5, "op")) {
    case 0: { const auto id = mgr.GenerateNewID(type); issued.push_back({id.uid, id.alias, type}); break; }
    case 1: {
      const EntityUID uid = 10 + (EntityUID)pick(3, "uid");
      const auto id = mgr.RegisterID(uid, genAlias(), type);
      issued.push_back({id.uid, id.alias, type});
      break;
    }
    case 2: { const auto id = mgr.RegisterEntity(10 + (EntityUID)pick(3, "uid"), type); issued.push_back({id.uid, id.alias, type}); break; }
    case 3: {
      if (issued.empty()) break;
      const size_t k = (size_t)pick((int)issued.size(), "which");
      const std::string fresh = genAlias();
      const bool ok = mgr.TryAlias(issued[k].alias, fresh, issued[k].type);
      bool clash = false;
      for (size_t j = 0; j < issued.size(); ++j) if (j != k && issued[j].alias == fresh) clash = true;
      if (ok) { sym_assert(!clash, "tryalias-never-accepts-a-taken-name"); issued[k].alias = fresh; sym_reach("alias-changed"); }
      else sym_reach("alias-refused");
      break;
    }
    default: {
      if (issued.empty()) break;
      const size_t k = (size_t)pick((int)issued.size(), "which");
      mgr.Erase(issued[k].uid, issued[k].alias);
      issued.erase(issued.begin() + (long)k);
      break;
    }
    }
    check();
  }
  sym_reach("identity");
#endif
#ifdef WITNESS
  sym_assert(false, "witness");
#endif
}

#else
// PART 3: tracking (inherited constituents) together with the operations that erase behind the user's back:
// schema X1, X2, D1:=X1\X1, D2:=X2\X2, D3:=X1\X1 (a duplicate of D1); K steps from {Track, StopTracking, Erase,
// SetExpressionFor, DeleteDuplicates, Equate(base pair), InsertCopy of a record with a previously used uid}.
#include "ccl/semantic/RSForm.h"
#include "ccl/ops/EquationOptions.h"
extern "C" void harness_main() {
  RSForm f;
  std::vector<EntityUID> ever;
  ever.push_back(f.Emplace(CstType::base)); ever.push_back(f.Emplace(CstType::base));
  ever.push_back(f.Emplace(CstType::term, "X1\\X1")); ever.push_back(f.Emplace(CstType::term, "X2\\X2")); ever.push_back(f.Emplace(CstType::term, "X1\\X1"));
  auto invariants = [&]() {
    for (const auto u : ever) {
      if (f.Contains(u)) continue;
      sym_assert(!f.Mods().IsTracking(u) && f.Mods()(u) == nullptr, "erased-gone-from-tracking");
      sym_assert(!f.Texts().Contains(u) && !f.RSLang().Graph().Contains(u) && f.List().Find(u) == f.List().end(), "erased-gone-from-every-view");
    }
    std::set<std::string> names;
    for (const auto u : f.List()) sym_assert(names.insert(f.GetRS(u).alias).second, "aliases-unique");
  };
  for (int step = 0; step < K; ++step) {
    const EntityUID target = ever[(size_t)pick((int)ever.size(), "target")];
    switch (pick(7, "op")) {
    case 0: if (f.Contains(target)) { f.Mods().Track(target); sym_reach("tracked"); } break;
    case 1: f.Mods().StopTracking(target); break;
    case 2: {
      const bool tracked = f.Mods().IsTracking(target);
      const bool ok = f.Erase(target);
      if (tracked) sym_assert(!ok, "tracked-constituent-cannot-be-erased");
      break;
    }
    case 3: {
      const bool tracked = f.Contains(target) && f.Mods().IsTracking(target) && !f.Mods()(target)->allowEdit;
      const bool ok = f.SetExpressionFor(target, "X1");
      if (tracked) sym_assert(!ok, "tracked-definition-cannot-be-edited");
      break;
    }
    case 4: (void)f.Ops().DeleteDuplicates(); sym_reach("delete-duplicates"); break;
    case 5: { const EntityUID other = ever[(size_t)pick(2, "base")]; if (f.Contains(target) && f.Contains(other) && target != other) (void)f.Ops().Equate(ops::EquationOptions{target, other}); break; }
    default: {   // a constituent from elsewhere that happens to carry a uid used here before
      ConceptRecord r; r.uid = target; r.alias = "D9"; r.type = CstType::term; r.rs = "X1\xE2\x88\xAAX1";
      if (!f.Contains(target)) {
        const auto fresh = f.InsertCopy(r);
        ever.push_back(fresh);
        sym_assert(!f.Mods().IsTracking(fresh), "inserted-copy-is-not-tracked");
        sym_assert(f.SetExpressionFor(fresh, "X1"), "untracked-copy-can-be-edited");
        sym_reach("copy-with-old-uid");
      }
      break;
    }
    }
    invariants();
  }
  sym_reach("tracking");
#ifdef WITNESS
  sym_assert(false, "witness");
#endif
}
#endif
