// C04 / analysis entry points on adversarial inputs under a schema context.
//  PART 1 (check-tokens): every sequence of at most L tokens of the MATH spelling table, joined by a
//          space: SchemaAuditor::CheckExpression + CheckValue, RSFormJA::CheckExpression,
//          ConvertTo(ASCII) and back: all return normally; failure <=> a critical error was logged;
//          every error position lies inside the input (in code points).
//  PART 2 (holes): templates with symbolic-byte holes (indices of pr/Pr/Fi, long integers, call
//          arguments) through the same entry points.
//  PART 3 (evaluate): the same token sequences through RSModel (Emplace of a term + Calculate).
//  PART 4 (reused analysers): one Parser and one SchemaAuditor first process an input from a menu of multi-line /
//          failing texts and then a token sequence: the verdict/position contract must hold for the SECOND input too.
#include "sym.h"
#include "h_schema.h"
#include "ccl/api/RSFormJA.h"
#include "ccl/tools/JSON.h"
#include "ccl/rslang/RSGenerator.h"
#include "ccl/Strings.hpp"
#include <string>
#ifndef L
#define L 1
#endif
#ifndef PART
#define PART 1
#endif
using namespace ccl;
static std::string tokensText() {
  std::string text;
  int n = sym_concretize_i32(sym_range(1, L, "ntokens"));
  for (int i = 0; i < n; ++i) {
    int t = sym_concretize_i32(sym_range(0, hv::N_MATH_TOKENS - 1, "token"));
    if (i) text += ' ';
    text += hv::MATH_TOKENS[t];
  }
  return text;
}
static std::string holesText() {
  static const char* const TEMPL[] = {"pr#(S1)", "Pr#(S1)", "Pr1,#(S1)", "Fi#[X1](S1)", "Fi1,#[X1,X1](S1)", "F1[#, X1]", "card(#)", "#+1", "X1\\#", "{#}", "D{\xCE\xBE\xE2\x88\x88X1 | \xCE\xBE=#}",
    // a hole (any 1-2 bytes, e.g. the name of a global of any kind) in every remaining position that takes an operand
    "I{a | a:=#}", "I{a | a:\xE2\x88\x88#}", "I{# | a:\xE2\x88\x88X1}", "R{\xCE\xBE:=# | \xCE\xBE}", "R{\xCE\xBE:=X1 | # | \xCE\xBE}", "\xE2\x88\x80" "a\xE2\x88\x88# a=a", "\xE2\x88\x80" "a\xE2\x88\x88X1 #",
    "[\xCE\xB1\xE2\x88\x88#] \xCE\xB1", "debool(#)", "bool(#)", "red(#)", "\xE2\x84\xAC(#)", "(#,X1)", "#\xC3\x97X1", "Fi1[#](S1)", "Fi1[X1](#)", "P1[#]", "pr1(#)", "Pr1(#)", "#=X1", "\xC2\xAC#", "#&1=1",
    "S9::=#", "D9:==#", "{X1,#}", "X1\xE2\x88\x88#", "1<#"};
  int t = sym_concretize_i32(sym_range(0, (int)(sizeof(TEMPL) / sizeof(TEMPL[0])) - 1, "template"));
  std::string text;
  for (const char* p = TEMPL[t]; *p; ++p) {
    if (*p != '#') { text += *p; continue; }
    int len = sym_concretize_i32(sym_range(1, 2, "holelen"));
    char hole[2];
    sym_bytes(hole, 2, "hole");
    for (int i = 0; i < len; ++i) { sym_assume(hole[i] != 0); text += hole[i]; }
  }
  return text;
}
static void checkLog(const rslang::ErrorLogger& log, bool ok, const std::string& text, const char* tagVerdict, const char* tagPos) {
  sym_assert(ok == !log.HasCriticalErrors(), tagVerdict);
  const int cps = SizeInCodePoints(text);
  for (const auto& e : log.All()) sym_assert(e.position >= 0 && e.position <= cps, tagPos);
}
extern "C" void harness_main() {
#if PART == 4
  semantic::RSForm schema;
  hv::BuildContext(schema);
  static const char* const FIRST[] = {"X1\n", "X1\n\xE2\x88\xAA\nX2", "\n\n\n", "X1 \xE2\x88\xAA\n", "X1\xE2\x88\xAAX2", "D1\n\\\nD1\n\\X9"};
  const std::string first = FIRST[sym_concretize_i32(sym_range(0, 5, "first-input"))];
  rslang::Parser parser;
  auto auditor = schema.RSLang().MakeAuditor();
  (void)parser.Parse(first, rslang::Syntax::MATH);
  (void)auditor->CheckExpression(first, rslang::Syntax::MATH);
  const std::string text = tokensText();
  const bool parsed = parser.Parse(text, rslang::Syntax::MATH);
  checkLog(parser.Errors(), parsed, text, "reused-parser-verdict-iff-no-critical-error", "reused-parser-error-position-inside-input");
  if (parsed) {
    const int cps = SizeInCodePoints(text);
    sym_assert(parser.AST().Root()->pos.start >= 0 && parser.AST().Root()->pos.finish <= cps, "reused-parser-root-range-inside-input");
  }
  const bool typeOK = auditor->CheckExpression(text, rslang::Syntax::MATH);
  checkLog(auditor->Errors(), typeOK, text, "reused-auditor-verdict-iff-no-critical-error", "reused-auditor-error-position-inside-input");
  sym_reach("reused");
#elif PART == 3
  semantic::RSModel model;
  hv::BuildContext(model);
  {
    auto x1 = model.Core().FindAlias("X1").value();
    model.Values().AddBasicElement(x1, "a");
    model.Values().AddBasicElement(x1, "b");
    auto s1 = model.Core().FindAlias("S1").value();
    model.Values().SetStructureData(s1, object::Factory::Set({object::Factory::TupleV({1, 2})}));
  }
  std::string text = tokensText();
  auto uid = model.Emplace(semantic::CstType::term, text);
  model.Calculations().RecalculateAll();
  (void)model.Calculations()(uid);
  sym_reach("evaluated");
#else
  semantic::RSForm schema;
  hv::BuildContext(schema);
#if PART == 1
  std::string text = tokensText();
#else
  std::string text = holesText();
#endif
  auto auditor = schema.RSLang().MakeAuditor();
  const bool typeOK = auditor->CheckExpression(text, rslang::Syntax::MATH);
  checkLog(auditor->Errors(), typeOK, text, "check-verdict-iff-no-critical-error", "check-error-position-inside-input");
  if (typeOK) {
    const bool valueOK = auditor->CheckValue();
    sym_assert(valueOK == !auditor->Errors().HasCriticalErrors(), "value-verdict-iff-no-critical-error");
    sym_reach("type-ok");
  } else sym_reach("rejected");
#if PART == 1
  // the constituent-level check for every kind of constituent: same contract (failure <=> critical error; positions inside "alias:==text")
  {
    using semantic::CstType;
    static const struct { CstType type; const char* alias; } KINDS[] = {{CstType::base, "X9"}, {CstType::constant, "C9"}, {CstType::structured, "S9"}, {CstType::axiom, "A9"},
      {CstType::term, "D9"}, {CstType::function, "F9"}, {CstType::predicate, "P9"}, {CstType::theorem, "T9"}};
    for (const auto& kind : KINDS) {
      auto fresh = schema.RSLang().MakeAuditor();
      const bool ok = fresh->CheckConstituenta(kind.alias, text, kind.type);
      sym_assert(ok == !fresh->Errors().HasCriticalErrors(), "constituent-verdict-iff-no-critical-error");
      const int limit = SizeInCodePoints(text) + fresh->prefixLen;
      for (const auto& e : fresh->Errors().All()) sym_assert(e.position >= 0 && e.position <= limit, "constituent-error-position-inside-input");
      if (ok) { const bool valueOK = fresh->CheckValue(); sym_assert(valueOK == !fresh->Errors().HasCriticalErrors(), "constituent-value-verdict-iff-no-critical-error"); }
    }
  }
#endif
  auto ja = api::RSFormJA::FromData(std::move(schema));
  // the JSON-returning entry points may raise the documented nlohmann JSON error (e.g. a string that
  // is not valid UTF-8 cannot be dumped); nothing else
  try { (void)ja.CheckExpression(text, rslang::Syntax::MATH); } catch (const nlohmann::json::exception&) { sym_reach("json-error"); }
  try { (void)ja.CheckConstituenta("D9", text, "term"); } catch (const nlohmann::json::exception&) { sym_reach("json-error"); }
  try { (void)api::ParseExpression(text, rslang::Syntax::MATH); } catch (const nlohmann::json::exception&) { sym_reach("json-error"); }
  const std::string ascii = rslang::ConvertTo(text, rslang::Syntax::ASCII);
  (void)rslang::ConvertTo(ascii, rslang::Syntax::MATH);
#endif
#ifdef WITNESS
  sym_assert(false, "witness");
#endif
}
