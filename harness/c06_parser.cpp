// C06: the Bison parser against the independent reference parser (refs/ref_parser.h).
//  PART 1 (token level): every stream of at most L tokens over a sub-alphabet (token ids symbolic):
//          accept/reject agree; the tree dump (AST2String format) and every node range agree.
//  PART 2 (text level): the stream is rendered to text (MATH or ASCII spelling, symbolic whitespace
//          (spaces, tabs, one or SEVERAL line breaks) between tokens), lexed by the real lexer - token ids and code-point ranges must be the
//          ones the text was built from -, parsed by Parser::Parse; the tree with ranges must equal
//          the reference tree over the expected tokens; FindMinimalNode(root, r) must be the
//          innermost reference node containing r, for every r.
#include "sym.h"
#include "h_tokens.h"
#include "ref_parser.h"
#ifndef PART
#define PART 1
#endif
#ifndef SYNTAX
#define SYNTAX 0
#endif
using namespace ccl;
using namespace ccl::rslang;
using T = TokenID;
using hv::makeToken;
static void dumpReal(SyntaxTree::Cursor cursor, std::string& out) {
  out += '[';
  out += cursor->ToString();
  out += '@';
  out += ref::detail::IntToString(cursor->pos.start);
  out += ':';
  out += ref::detail::IntToString(cursor->pos.finish);
  for (Index child = 0; child < cursor.ChildrenCount(); ++child) dumpReal(cursor.Child(child), out);
  out += ']';
}
// innermost reference node whose range contains r (children searched first)
static const ref::Node* innermost(const ref::Node& n, StrRange r) {
  // containment as defined by StrRange::Contains: an empty range is a cursor position inside [start, finish)
  const bool inside = r.start == r.finish ? (n.pos.start <= r.finish && r.finish < n.pos.finish) : (n.pos.start <= r.start && r.finish <= n.pos.finish);
  if (!inside) return nullptr;
  for (const auto& c : n.children) if (const ref::Node* x = innermost(c, r)) return x;
  return &n;
}

extern "C" void harness_main() {
  std::vector<Token> tokens = hv::GenTokens();
  const int n = (int)tokens.size();
#if PART == 1
  detail::RSParser parser{};
  size_t next = 0;
  const int32_t endPos = tokens.back().pos.finish;
  const bool realOk = parser.Parse([&]() {
    if (next < tokens.size()) return tokens[next++];
    return Token{T::END, StrRange{endPos, endPos}};
  });
  const auto refTree = ref::Parse(tokens);
  sym_assert(realOk == refTree.has_value(), "accept-reject-agree");
  if (realOk && refTree.has_value()) {
    sym_assert(AST2String::Apply(parser.AST()) == ref::ToString(*refTree), "tree-agrees");
    std::string a, b;
    dumpReal(parser.AST().Root(), a);
    ref::DumpWithRanges(*refTree, b);
    sym_assert(a == b, "ranges-agree");
    sym_reach("accepted");
  } else sym_reach("rejected");
#else
  // render: token spelling in the chosen syntax, symbolic whitespace between tokens
  const Syntax syntax = SYNTAX == 0 ? Syntax::MATH : Syntax::ASCII;
  std::string text;
  std::vector<Token> expected;
  int cp = 0;   // position in code points (MATH) / bytes (ASCII)
  // whitespace pattern: 0 = only where needed, 1 = a space in every gap, 2 = a newline in gap k, 3 = two spaces in gap k,
  // 4 = a newline in EVERY gap (several lines), 5 = newlines in gaps k and k+1, 6 = a tab in gap k
  const int wsMode = sym_concretize_i32(sym_range(0, 6, "ws-mode"));
  const int wsGap = (wsMode == 2 || wsMode == 3 || wsMode == 5 || wsMode == 6) ? sym_concretize_i32(sym_range(1, n > 1 ? n - 1 : 1, "ws-gap")) : 0;
  for (int i = 0; i < n; ++i) {
    // identifiers/keywords glued to the previous token would change the token: force a separator
    const bool prevWord = i > 0 && (tokens[i - 1].id == T::ID_GLOBAL || tokens[i - 1].id == T::ID_LOCAL || tokens[i - 1].id == T::LIT_INTEGER || tokens[i-1].id == T::ID_FUNCTION || tokens[i-1].id == T::ID_PREDICATE ||
                                    tokens[i - 1].id == T::SMALLPR || tokens[i - 1].id == T::BIGPR || tokens[i - 1].id == T::FILTER || tokens[i-1].id == T::CARD || tokens[i-1].id == T::DEBOOL ||
                                    tokens[i - 1].id == T::DECLARATIVE || tokens[i - 1].id == T::RECURSIVE || tokens[i - 1].id == T::IMPERATIVE);
    if (i > 0) {
      if ((wsMode == 2 && i == wsGap) || wsMode == 4 || (wsMode == 5 && (i == wsGap || i == wsGap + 1))) { text += '\n'; ++cp; }
      else if (wsMode == 3 && i == wsGap) { text += "  "; cp += 2; }
      else if (wsMode == 6 && i == wsGap) { text += '\t'; ++cp; }
      else if (wsMode == 1 || prevWord) { text += ' '; ++cp; }
    }
    const std::string spelling = tokens[i].ToString(syntax);   // ASCII spellings carry their own surrounding spaces
    size_t lead = 0, trail = 0;
    while (lead < spelling.size() && spelling[lead] == ' ') ++lead;
    while (trail < spelling.size() - lead && spelling[spelling.size() - 1 - trail] == ' ') ++trail;
    Token t = tokens[i];
    const int len = SYNTAX == 0 ? SizeInCodePoints(spelling) : (int)spelling.size();
    t.pos = StrRange{cp + (int)lead, cp + len - (int)trail};
    expected.push_back(t);
    text += spelling;
    cp += len;
  }
  Parser parser;
  // the lexer must produce exactly the tokens the text was built from, with their ranges
  {
    auto stream = parser.Lex(text, syntax);
    for (size_t i = 0; i < expected.size(); ++i) {
      Token got = stream();
      sym_assert(got.id == expected[i].id, "lexer-token-id");
      sym_assert(got.pos == expected[i].pos, "lexer-token-range");
    }
    sym_assert(stream().id == T::END, "lexer-end");
  }
  const bool realOk = parser.Parse(text, syntax);
  const auto refTree = ref::Parse(expected);
  sym_assert(realOk == refTree.has_value(), "accept-reject-agree");
  if (realOk && refTree.has_value()) {
    std::string a, b;
    dumpReal(parser.AST().Root(), a);
    ref::DumpWithRanges(*refTree, b);
    sym_assert(a == b, "tree-and-ranges-agree");
    for (int s = 0; s <= cp; ++s)
      for (int f = s; f <= cp; ++f) {
        const auto found = FindMinimalNode(parser.AST().Root(), StrRange{s, f});
        const ref::Node* want = innermost(*refTree, StrRange{s, f});
        sym_assert(found.has_value() == (want != nullptr), "minimal-node-exists");
        if (found.has_value() && want != nullptr)
          sym_assert((*found)->pos.start == want->pos.start && (*found)->pos.finish == want->pos.finish && (*found)->id == want->id, "minimal-node-is-innermost");
      }
    sym_reach("accepted");
  } else sym_reach("rejected");
#endif
#ifdef WITNESS
  sym_assert(false, "witness");
#endif
}
