// C06: the Bison parser against the independent reference parser (refs/ref_parser.h).
//  PART 1 (token level): every stream of at most L tokens over a sub-alphabet (token ids symbolic):
//          accept/reject agree; the tree dump (AST2String format) and every node range agree.
//  PART 2 (text level): the stream is rendered to text (MATH or ASCII spelling, symbolic whitespace
//          between tokens), lexed by the real lexer - token ids and code-point ranges must be the
//          ones the text was built from -, parsed by Parser::Parse; the tree with ranges must equal
//          the reference tree over the expected tokens; FindMinimalNode(root, r) must be the
//          innermost reference node containing r, for every r.
#include "sym.h"
#include "ccl/rslang/Parser.h"
#include "ccl/rslang/RSParser.h"
#include "ccl/rslang/SyntaxTree.h"
#include "ref_parser.h"
#ifndef L
#define L 3
#endif
#ifndef ALPHA
#define ALPHA 1
#endif
#ifndef PART
#define PART 1
#endif
#ifndef SYNTAX
#define SYNTAX 0
#endif
using namespace ccl;
using namespace ccl::rslang;
using T = TokenID;
#if ALPHA == 1     // logic
static const T ALPHABET[] = {T::ID_GLOBAL, T::EQUAL, T::NOT, T::AND, T::OR, T::IMPLICATION, T::EQUIVALENT, T::FORALL, T::EXISTS, T::ID_LOCAL, T::IN, T::PUNC_PL, T::PUNC_PR};
#elif ALPHA == 2   // set expressions and arithmetic
static const T ALPHABET[] = {T::ID_GLOBAL, T::LIT_INTEGER, T::PLUS, T::MINUS, T::MULTIPLY, T::UNION, T::INTERSECTION, T::SET_MINUS, T::SYMMINUS, T::DECART, T::BOOLEAN, T::PUNC_PL, T::PUNC_PR, T::PUNC_COMMA};
#elif ALPHA == 3   // constructors
static const T ALPHABET[] = {T::ID_GLOBAL, T::ID_LOCAL, T::PUNC_CL, T::PUNC_CR, T::PUNC_BAR, T::DECLARATIVE, T::RECURSIVE, T::IMPERATIVE, T::IN, T::ASSIGN, T::ITERATE, T::PUNC_SEMICOLON, T::EQUAL, T::PUNC_COMMA};
#elif ALPHA == 4   // calls, projections, filters, text operators, declarations
static const T ALPHABET[] = {T::ID_GLOBAL, T::ID_FUNCTION, T::ID_PREDICATE, T::PUNC_SL, T::PUNC_SR, T::PUNC_PL, T::PUNC_PR, T::PUNC_COMMA, T::SMALLPR, T::BIGPR, T::FILTER, T::CARD, T::DEBOOL, T::PUNC_DEFINE, T::PUNC_STRUCT, T::ID_LOCAL, T::IN};
#elif ALPHA == 5   // predicates
static const T ALPHABET[] = {T::ID_GLOBAL, T::LIT_INTEGER, T::LIT_EMPTYSET, T::LIT_INTSET, T::IN, T::NOTIN, T::SUBSET, T::SUBSET_OR_EQ, T::NOTSUBSET, T::GREATER, T::LESSER, T::GREATER_OR_EQ, T::LESSER_OR_EQ, T::NOTEQUAL, T::EQUAL, T::AND};
#else
static const T ALPHABET[] = {T::ID_GLOBAL};
#endif
static const int NALPHA = sizeof(ALPHABET) / sizeof(ALPHABET[0]);

static Token makeToken(T id, int index) {
  Token t;
  t.id = id;
  t.pos = StrRange{2 * index, 2 * index + 1};
  switch (id) {
  case T::ID_GLOBAL: t.data = TokenData{std::string{"X1"}}; break;
  case T::ID_LOCAL: t.data = TokenData{std::string{"a"}}; break;
  case T::ID_FUNCTION: t.data = TokenData{std::string{"F1"}}; break;
  case T::ID_PREDICATE: t.data = TokenData{std::string{"P1"}}; break;
  case T::LIT_INTEGER: t.data = TokenData{int32_t{1}}; break;
  case T::SMALLPR: t.data = TokenData{std::vector<Index>{1}}; break;
  case T::BIGPR: t.data = TokenData{std::vector<Index>{1, 2}}; break;
  case T::FILTER: t.data = TokenData{std::vector<Index>{1}}; break;
  default: break;
  }
  return t;
}
static void dumpReal(SyntaxTree::Cursor cursor, std::string& out) {
  out += '[';
  out += cursor->ToString();
  out += '@';
  out += ref::detail::IntToString(cursor->pos.start);
  out += ':';
  out += ref::detail::IntToString(cursor->pos.finish);
  for (Index child = 0; child < cursor.ChildrenCount(); ++child) dumpReal(cursor.Child(child), out);
  out += ']';
}
// innermost reference node whose range contains r (children searched first)
static const ref::Node* innermost(const ref::Node& n, StrRange r) {
  // containment as defined by StrRange::Contains: an empty range is a cursor position inside [start, finish)
  const bool inside = r.start == r.finish ? (n.pos.start <= r.finish && r.finish < n.pos.finish) : (n.pos.start <= r.start && r.finish <= n.pos.finish);
  if (!inside) return nullptr;
  for (const auto& c : n.children) if (const ref::Node* x = innermost(c, r)) return x;
  return &n;
}

static const T LOGIC_OPS[] = {T::AND, T::OR, T::IMPLICATION, T::EQUIVALENT};
static const T SET_OPS[] = {T::PLUS, T::MINUS, T::MULTIPLY, T::UNION, T::INTERSECTION, T::SET_MINUS, T::SYMMINUS, T::DECART};
static const char* const LOGIC_SKELETONS[] = {"AoAoA", "(AoA)oA", "Ao(AoA)", "nAoA", "n(AoA)oA", "qAoA", "q(AoA)oA", "AoqAoA", "AonA", "((AoA))oA", "AoAoAoA", "qnA", "nqA", "nnA"};
static const char* const SET_SKELETONS[] = {"XsXsX", "(XsX)sX", "Xs(XsX)", "XsXsXsX", "(XsX)sXsX", "Xs(XsXsX)", "((XsX))sX", "b(XsX)sX", "Xsb(X)", "bb(X)sX", "(XsXsX)sX", "XsX=XsX", "XsXeXsX"};
extern "C" void harness_main() {
  std::vector<Token> tokens;
#if ALPHA >= 11
  {
    const char* sk;
    if (ALPHA == 11) sk = LOGIC_SKELETONS[sym_concretize_i32(sym_range(0, (int)(sizeof(LOGIC_SKELETONS) / sizeof(char*)) - 1, "skeleton"))];
    else sk = SET_SKELETONS[sym_concretize_i32(sym_range(0, (int)(sizeof(SET_SKELETONS) / sizeof(char*)) - 1, "skeleton"))];
    auto add = [&](T id) { tokens.push_back(makeToken(id, (int)tokens.size())); };
    for (const char* p = sk; *p; ++p) switch (*p) {
      case 'A': add(T::ID_GLOBAL); add(T::EQUAL); add(T::ID_GLOBAL); break;
      case 'X': add(T::ID_GLOBAL); break;
      case 'o': add(LOGIC_OPS[sym_range(0, 3, "logic-op")]); break;
      case 's': add(SET_OPS[sym_range(0, 7, "set-op")]); break;
      case '(': add(T::PUNC_PL); break;
      case ')': add(T::PUNC_PR); break;
      case 'n': add(T::NOT); break;
      case 'b': add(T::BOOLEAN); break;
      case '=': add(T::EQUAL); break;
      case 'e': add(T::IN); break;
      case 'q': add(sym_bool("exists") ? T::EXISTS : T::FORALL); add(T::ID_LOCAL); add(T::IN); add(T::ID_GLOBAL); break;
    }
  }
  const int n = (int)tokens.size();
#else
  int n = sym_concretize_i32(sym_range(1, L, "ntokens"));
  for (int i = 0; i < n; ++i) {
    int k = sym_range(0, NALPHA - 1, "token");
    T id = ALPHABET[k];
    tokens.push_back(makeToken(id, i));
  }
#endif
#if PART == 1
  detail::RSParser parser{};
  size_t next = 0;
  const int32_t endPos = tokens.back().pos.finish;
  const bool realOk = parser.Parse([&]() {
    if (next < tokens.size()) return tokens[next++];
    return Token{T::END, StrRange{endPos, endPos}};
  });
  const auto refTree = ref::Parse(tokens);
  sym_assert(realOk == refTree.has_value(), "accept-reject-agree");
  if (realOk && refTree.has_value()) {
    sym_assert(AST2String::Apply(parser.AST()) == ref::ToString(*refTree), "tree-agrees");
    std::string a, b;
    dumpReal(parser.AST().Root(), a);
    ref::DumpWithRanges(*refTree, b);
    sym_assert(a == b, "ranges-agree");
    sym_reach("accepted");
  } else sym_reach("rejected");
#else
  // render: token spelling in the chosen syntax, symbolic whitespace between tokens
  const Syntax syntax = SYNTAX == 0 ? Syntax::MATH : Syntax::ASCII;
  std::string text;
  std::vector<Token> expected;
  int cp = 0;   // position in code points (MATH) / bytes (ASCII)
  // whitespace pattern: 0 = only where needed, 1 = a space in every gap, 2 = a newline in gap k, 3 = two spaces in gap k
  const int wsMode = sym_concretize_i32(sym_range(0, 3, "ws-mode"));
  const int wsGap = wsMode >= 2 ? sym_concretize_i32(sym_range(1, n > 1 ? n - 1 : 1, "ws-gap")) : 0;
  for (int i = 0; i < n; ++i) {
    // identifiers/keywords glued to the previous token would change the token: force a separator
    const bool prevWord = i > 0 && (tokens[i - 1].id == T::ID_GLOBAL || tokens[i - 1].id == T::ID_LOCAL || tokens[i - 1].id == T::LIT_INTEGER || tokens[i-1].id == T::ID_FUNCTION || tokens[i-1].id == T::ID_PREDICATE ||
                                    tokens[i - 1].id == T::SMALLPR || tokens[i - 1].id == T::BIGPR || tokens[i - 1].id == T::FILTER || tokens[i-1].id == T::CARD || tokens[i-1].id == T::DEBOOL ||
                                    tokens[i - 1].id == T::DECLARATIVE || tokens[i - 1].id == T::RECURSIVE || tokens[i - 1].id == T::IMPERATIVE);
    if (i > 0) {
      if (wsMode == 2 && i == wsGap) { text += '\n'; ++cp; }
      else if (wsMode == 3 && i == wsGap) { text += "  "; cp += 2; }
      else if (wsMode == 1 || prevWord) { text += ' '; ++cp; }
    }
    const std::string spelling = tokens[i].ToString(syntax);   // ASCII spellings carry their own surrounding spaces
    size_t lead = 0, trail = 0;
    while (lead < spelling.size() && spelling[lead] == ' ') ++lead;
    while (trail < spelling.size() - lead && spelling[spelling.size() - 1 - trail] == ' ') ++trail;
    Token t = tokens[i];
    const int len = SYNTAX == 0 ? SizeInCodePoints(spelling) : (int)spelling.size();
    t.pos = StrRange{cp + (int)lead, cp + len - (int)trail};
    expected.push_back(t);
    text += spelling;
    cp += len;
  }
  Parser parser;
  // the lexer must produce exactly the tokens the text was built from, with their ranges
  {
    auto stream = parser.Lex(text, syntax);
    for (size_t i = 0; i < expected.size(); ++i) {
      Token got = stream();
      sym_assert(got.id == expected[i].id, "lexer-token-id");
      sym_assert(got.pos == expected[i].pos, "lexer-token-range");
    }
    sym_assert(stream().id == T::END, "lexer-end");
  }
  const bool realOk = parser.Parse(text, syntax);
  const auto refTree = ref::Parse(expected);
  sym_assert(realOk == refTree.has_value(), "accept-reject-agree");
  if (realOk && refTree.has_value()) {
    std::string a, b;
    dumpReal(parser.AST().Root(), a);
    ref::DumpWithRanges(*refTree, b);
    sym_assert(a == b, "tree-and-ranges-agree");
    for (int s = 0; s <= cp; ++s)
      for (int f = s; f <= cp; ++f) {
        const auto found = FindMinimalNode(parser.AST().Root(), StrRange{s, f});
        const ref::Node* want = innermost(*refTree, StrRange{s, f});
        sym_assert(found.has_value() == (want != nullptr), "minimal-node-exists");
        if (found.has_value() && want != nullptr)
          sym_assert((*found)->pos.start == want->pos.start && (*found)->pos.finish == want->pos.finish && (*found)->id == want->id, "minimal-node-is-innermost");
      }
    sym_reach("accepted");
  } else sym_reach("rejected");
#endif
#ifdef WITNESS
  sym_assert(false, "witness");
#endif
}
