// C08: renaming rewrites all and only the whole-identifier mentions.
//  PART 1 (text level): text = p0 I1 p1 I2 p2 [p3 I3] where the pieces p* come from a menu of
//          multi-byte operators / punctuation / whitespace / a local variable / a newline, and the
//          identifiers I* are a symbolic letter (X, D, F, P, S) followed by 1-2 symbolic digits; a
//          substitution map with at most 2 entries (chains and swaps included): SubstituteGlobals and
//          TranslateRS must give the text in which exactly the whole identifiers that are keys of the
//          map are replaced simultaneously; the count is the number of replacements; all other bytes
//          are untouched; ExtractUGlobals returns exactly the identifiers.
//  PART 2 (schema level): X1, D1, D2 with definitions, conventions and text references instantiated
//          from templates over an alias table; SetAliasFor(target, new, substitute = true):
//          refused => the schema is unchanged; accepted (and the new name was not mentioned before as a
//          dangling name) => the schema equals the one built from scratch from the same templates over
//          the updated alias table.
#include "sym.h"
#include "ccl/rslang/RSExpr.h"
#include "ccl/semantic/RSForm.h"
#include "ccl/api/RSFormJA.h"
#include "ccl/rslang/SyntaxTree.h"
#include <set>
#include <string>
#ifndef PART
#define PART 1
#endif
#ifndef NLETTERS
#define NLETTERS 2
#endif
using namespace ccl;
static int pick(int n, const char* name) { return sym_concretize_i32(sym_range(0, n - 1, name)); }

#if PART == 1
static const char* const SEP[] = {"\xE2\x88\xAA", "\\", " ", "\xC3\x97", "\xE2\x88\x88", "(", ")\xE2\x88\xA9", ", ", " x1 ", "\n", "=\xC2\xAC", "[", "] & ", "\xE2\x84\xAC(", " x1\xE2\x88\x88", "\xE2\x88\x80\xCE\xBE\xE2\x88\x88"};
static std::string ident(const char* why) {
  static const char LETTERS[] = {'X', 'D', 'F', 'P', 'S'};
  std::string s(1, LETTERS[pick(NLETTERS, why)]);
  const int nd = 1 + pick(2, "ndigits");
  for (int i = 0; i < nd; ++i) s += (char)('1' + pick(2, "digit"));     // digits 1..2: X1, X2, X11, X12, X21, X22
  return s;
}
static void checkOne(const std::vector<std::string>& ids, const std::vector<std::string>& seps, const StrSubstitutes& map) {
  std::string text = seps[0], expect = seps[0];
  int count = 0;
  for (size_t i = 0; i < ids.size(); ++i) {
    text += ids[i]; text += seps[i + 1];
    const auto it = map.find(ids[i]);
    if (it != map.end() && it->second != ids[i]) { expect += it->second; ++count; } else expect += ids[i];
    expect += seps[i + 1];
  }
  std::string got = text;
  const int n = rslang::SubstituteGlobals(got, map);
  sym_assert(got == expect, "substitute-globals-text");
  sym_assert(n == count, "substitute-globals-count");
  std::string got2 = text;
  const int n2 = rslang::TranslateRS(got2, rslang::TFFactory::FilterGlobals(), CreateTranslator(map));
  sym_assert(got2 == expect && n2 == count, "translate-rs");
  const auto globals = rslang::ExtractUGlobals(text);
  std::set<std::string> want(ids.begin(), ids.end());
  bool same = globals.size() == want.size();
  for (const auto& g : globals) if (!want.count(g)) same = false;
  sym_assert(same, "extract-globals");
}
extern "C" void harness_main() {
  std::vector<std::string> ids, seps;
  seps.push_back("");
  ids.push_back(ident("letter")); seps.push_back(SEP[pick(16, "sep")]);
  ids.push_back(ident("letter")); seps.push_back("");
  const int third = pick(3, "third");          // none / the first identifier again / X1
  if (third) { seps[2] = SEP[pick(4, "sep2") * 3]; ids.push_back(third == 1 ? ids[0] : std::string("X1")); seps.push_back(""); }
  const int nIdents = (int)ids.size();
  static const char* const NEWNAMES[] = {"X2", "D10", "X123", "X1", "F7", "X11"};
  static const char* const EDGE[] = {"", "\xE2\x84\xAC(", "\n"};
  // every lead/tail piece and every substitution map of the families below, inside this path
  for (int lead = 0; lead < 2; ++lead)
    for (int tail = 0; tail < 2; ++tail) {
      seps[0] = EDGE[lead]; seps[(size_t)nIdents] = tail == 1 ? "\n" : "";
      // single entry: key = an identifier, the local x1, or a proper prefix of the first identifier
      for (int from = 0; from < nIdents + 2; ++from)
        for (int v = 0; v < 6; ++v) {
          StrSubstitutes map;
          const std::string key = from < nIdents ? ids[(size_t)from] : (from == nIdents ? std::string("x1") : ids[0].substr(0, ids[0].size() - 1) );
          if (key.size() < 2 && from > nIdents) continue;
          map[key] = NEWNAMES[v];
          checkOne(ids, seps, map);
        }
      // two entries: swap, chain, and fan-in
      { StrSubstitutes m; m[ids[0]] = ids[1]; m[ids[1]] = ids[0]; checkOne(ids, seps, m); }
      { StrSubstitutes m; m[ids[0]] = "X2"; m["X2"] = "X3"; checkOne(ids, seps, m); }
      { StrSubstitutes m; m[ids[0]] = "D7"; m[ids[1]] = "D7"; checkOne(ids, seps, m); }
    }
  sym_reach("text");
#ifdef WITNESS
  sym_assert(false, "witness");
#endif
}
#else
using namespace ccl::semantic;
struct Content { std::string def[3]; std::string conv[3]; std::string term[3]; std::string textDef[3]; };
// templates over the alias table n[0..2] (+ a dangling name)
static Content instantiate(const std::string n[3], int v1, int v2, int r1, int r2, const std::string& dangling) {
  Content c;
  c.def[0] = "";
  static const int REFS[][2] = {{0, 0}, {0, 2}, {2, 2}, {0, 1}};
  auto expr = [&](int v, int a, int b) -> std::string {
    switch (v) {
    case 0: return n[a];
    case 1: return n[a] + "\xE2\x88\xAA" + n[b];
    case 2: return "\xE2\x84\xAC(" + n[a] + ")\\" + "\xE2\x84\xAC(" + n[b] + ")";
    case 3: return n[a] + "\xE2\x88\xAA" + dangling;
    default: return "{\xCE\xBE\xE2\x88\x88" + n[a] + " | \xCE\xBE\xE2\x88\x88" + n[b] + "}";
    }
  };
  c.def[1] = expr(v1, REFS[r1][0], REFS[r1][1]);
  c.def[2] = expr(v2, REFS[r2][0], REFS[r2][1] == 2 ? 1 : REFS[r2][1]);     // D2 may mention X1 and D1
  c.conv[0] = "basic, compare " + n[1] + " and " + n[2] + " (not D19)";   // X1 never depends formally on D1/D2; D19 merely contains D1
  c.conv[1] = "subsets of " + n[0] + " (not X19)";
  c.conv[2] = "unlike " + n[1] + ", over " + n[0];
  c.term[0] = "set";
  c.term[1] = "first @{" + n[0] + "|nomn}";
  c.term[2] = "second @{" + n[1] + "|sing,gent} and @{" + n[0] + "|plur}";
  c.textDef[2] = "see @{" + n[1] + "|nomn}";
  c.textDef[1] = "compound @{" + n[0] + "|nomn}@{" + n[1] + "|sing,gent}@{" + n[0] + "|plur}-end";     // directly adjacent references
  return c;
}
static std::string typeString(const ParsingInfo& p) {
  if (!p.exprType.has_value()) return "-";
  if (std::holds_alternative<rslang::LogicT>(*p.exprType)) return "LOGIC";
  return std::get<rslang::Typification>(*p.exprType).ToString();
}
static std::string describe(const RSForm& f, EntityUID uid) {
  const auto& rs = f.GetRS(uid); const auto& p = f.GetParse(uid); const auto& t = f.GetText(uid);
  std::string o = rs.alias + "|" + rs.definition + "|" + rs.convention + "|S" + std::to_string((int)p.status) + "|T" + typeString(p) + "|";
  if (p.ast != nullptr) o += rslang::AST2String::Apply(*p.ast);
  std::set<std::string> in; for (const auto i : f.RSLang().Graph().InputsFor(uid)) in.insert(f.GetRS(i).alias);
  o += "|I"; for (const auto& a : in) o += a + ",";
  o += "|" + t.term.Text().Raw() + "|" + t.definition.Raw() + "|" + t.term.Nominal() + "|" + t.definition.Str();
  return o;
}
static void build(RSForm& f, const std::string n[3], const Content& c, EntityUID uid[3]) {
  static const CstType KIND[] = {CstType::base, CstType::term, CstType::term};
  for (int k = 0; k < 3; ++k) {
    ConceptRecord r; r.uid = 100 + (EntityUID)k; r.alias = n[k]; r.type = KIND[k]; r.rs = c.def[k]; r.convention = c.conv[k];
    r.term = lang::LexicalTerm{c.term[k]}; r.definition = lang::ManagedText{c.textDef[k]};
    uid[k] = f.Load(std::move(r));
  }
  f.UpdateState();
}
extern "C" void harness_main() {
  std::string names[3] = {"X1", "D1", "D2"};
  const int v1 = pick(5, "d1-template"), v2 = pick(5, "d2-template"), r1 = pick(4, "d1-refs"), r2 = pick(4, "d2-refs");
  const std::string dangling = pick(2, "dangling") ? "D3" : "X7";
  const Content before = instantiate(names, v1, v2, r1, r2, dangling);
  RSForm a; EntityUID uid[3];
  build(a, names, before, uid);
  const int target = pick(3, "target");
  static const char* const NEWX[] = {"X2", "X7", "X11", "D5", "X1"};
  static const char* const NEWD[] = {"D3", "D11", "D2", "D1", "X9"};
  const std::string fresh = target == 0 ? NEWX[pick(5, "new-name")] : NEWD[pick(5, "new-name")];
  bool mentionedBefore = false;
  for (int k = 0; k < 3; ++k) if (before.def[k].find(fresh) != std::string::npos) mentionedBefore = true;
  const std::string snapshot = api::RSFormJA::FromData(RSForm(a)).ToJSON();
  const bool ok = a.SetAliasFor(uid[target], fresh, true);
  if (!ok) {
    sym_assert(api::RSFormJA::FromData(RSForm(a)).ToJSON() == snapshot, "refused-rename-changes-nothing");
    sym_reach("refused");
  } else {
    sym_assert(a.GetRS(uid[target]).alias == fresh, "alias-set");
    if (!mentionedBefore) {
      std::string renamed[3] = {names[0], names[1], names[2]};
      renamed[target] = fresh;
      const Content after = instantiate(renamed, v1, v2, r1, r2, dangling);
      RSForm b; EntityUID ub[3];
      build(b, renamed, after, ub);
      for (int k = 0; k < 3; ++k) sym_assert(describe(a, uid[k]) == describe(b, ub[k]), "renamed-schema-equals-schema-from-renamed-content");
      sym_reach("renamed");
    } else sym_reach("renamed-onto-mentioned-name");
  }
#ifdef WITNESS
  sym_assert(false, "witness");
#endif
}
#endif
