// C10: JSON save/load is lossless and stable.
//  PART 1 (schema): a schema built from templates with symbolic alias digits, texts containing a
//          symbolic "difficult" character (quote, backslash, control, 2/3-byte UTF-8, slash), manual
//          word forms, symbolic tracking flags, optionally one editing step (erase / rename / wrong
//          definition): B = FromJSON(ToJSON(A)) has identical records, order, tracking and embedded
//          analysis; ToJSON(B) == ToJSON(A) byte for byte.
//  PART 2 (model): base interpretations (symbolic names and key sets), structure values including
//          empty and nested-empty sets, calculated flags: load(save(M)) shows the same data, texts,
//          flags; save(load(save(M))) == save(M).
#include "sym.h"
#include "ccl/semantic/RSForm.h"
#include "ccl/semantic/RSModel.h"
#include "ccl/api/RSFormJA.h"
#include "ccl/tools/JSON.h"
#include <string>
#ifndef PART
#define PART 1
#endif
using namespace ccl;
using namespace ccl::semantic;
using object::Factory;
static int pick(int n, const char* name) { return sym_concretize_i32(sym_range(0, n - 1, name)); }
static std::string digit(const char* name) { return std::string(1, (char)('1' + pick(3, name))); }
static const char* const HARD[] = {"\"", "\\", "\n", "\x01", "\xD0\x96", "\xE2\x88\x85", "/", "\t", "", "@{", "}"};
static int hardIndex = -1;
static std::string hard(const char* name) { if (hardIndex < 0) hardIndex = pick(11, name); return HARD[hardIndex]; }   // one difficult character per run, used in every hole

static std::string recordString(const RSCore& core, EntityUID uid) {
  const auto r = core.AsRecord(uid);
  std::string o = std::to_string(r.uid) + "|" + r.alias + "|" + std::to_string((int)r.type) + "|" + r.rs + "|" + r.convention + "|" + r.term.Text().Raw() + "|" + r.definition.Raw() + "|F";
  // manual forms, order independent
  std::vector<std::string> forms;
  for (const auto& [morpho, text] : r.term.GetAllManual()) forms.push_back(morpho.ToString() + "=" + text);
  std::sort(forms.begin(), forms.end());
  for (const auto& f : forms) o += f + ";";
  return o;
}

extern "C" void harness_main() {
#if PART == 1
  RSForm a;
  a.title = "t" + hard("title-char"); a.alias = "s" + hard("alias-char"); a.comment = hard("comment-char") + "c";
  const auto x1 = a.Emplace(CstType::base);
  const auto c1 = a.Emplace(CstType::constant);
  const auto s1 = a.Emplace(CstType::structured, "\xE2\x84\xAC(X1)");
  const auto d1 = a.Emplace(CstType::term, pick(2, "d1-form") ? "X1" : "X1\xE2\x88\xAA" "D" + digit("ref"));
  const auto d2 = a.Emplace(CstType::term, "D" + digit("ref2") + "\\X1");
  const auto a1 = a.Emplace(CstType::axiom, pick(2, "a1-form") ? "D1=D2" : "D1=");
  a.SetTermFor(d1, "term" + hard("term-char") + " @{X1|nomn}");
  a.SetTermFormFor(d1, "form" + hard("form-char"), lang::Morphology{"sing,gent"});
  a.SetDefinitionFor(d2, hard("def-char") + "def @{D1|plur}");
  a.SetConventionFor(x1, "conv" + hard("conv-char"));
  if (sym_bool("track")) {
    TrackingFlags flags; const int fl = pick(3, "flags"); flags.allowEdit = fl == 1; flags.term = fl >= 1; flags.definition = fl == 2; flags.convention = fl == 1;
    a.Mods().Track(d1, flags);
  }
  switch (pick(8, "edit")) {
  case 7: a.SetTermFor(x1, "base" + hard("x1-term-char")); break;   // the term of X1 changes last: D1's term mentions X1, D2's text definition mentions D1
  case 4: (void)a.MoveBefore(s1, a.List().Find(c1)); break;     // reordering attempts across and inside the kind groups
  case 5: (void)a.MoveBefore(c1, a.List().end()); break;
  case 6: (void)a.MoveBefore(a1, a.List().Find(d1)); break;
  case 1: a.Erase(d1); break;                                   // leaves D1 as an unused / missing name
  case 2: a.SetAliasFor(d2, "D7", sym_bool("substitute")); break;
  case 3: a.SetExpressionFor(d2, "X1\xE2\x88\xAA"); break;
  default: break;
  }
  const std::string doc = api::RSFormJA::FromData(RSForm(a)).ToJSON();
  auto b = api::RSFormJA::FromJSON(doc);
  const RSForm& B = b.data();
  sym_assert(B.title == a.title && B.alias == a.alias && B.comment == a.comment, "schema-attributes");
  std::vector<EntityUID> la, lb;
  for (const auto u : a.List()) la.push_back(u);
  for (const auto u : B.List()) lb.push_back(u);
  sym_assert(la == lb, "order-and-identifiers");
  if (la == lb)
    for (const auto u : la) {
      sym_assert(recordString(a.Core(), u) == recordString(B.Core(), u), "record-identical");
      const auto* fa = a.Mods()(u); const auto* fb = B.Mods()(u);
      sym_assert((fa == nullptr) == (fb == nullptr) && (fa == nullptr || *fa == *fb), "tracking-flags");
      sym_assert(a.GetParse(u).status == B.GetParse(u).status, "embedded-analysis-status");
      sym_assert(a.GetText(u).term.Nominal() == B.GetText(u).term.Nominal() && a.GetText(u).definition.Str() == B.GetText(u).definition.Str(), "resolved-texts");
    }
  sym_assert(b.ToJSON() == doc, "second-save-is-identical");
  sym_reach("schema");
#else
  RSModel m;
  const auto x1 = m.Emplace(CstType::base);
  const auto s1 = m.Emplace(CstType::structured, "\xE2\x84\xAC\xE2\x84\xAC(X1)");
  const auto s2 = m.Emplace(CstType::structured, "X1\xC3\x97\xE2\x84\xAC(X1)");
  const auto d1 = m.Emplace(CstType::term, "red(S1)");
  const auto a1 = m.Emplace(CstType::axiom, "card(D1)=1");
  // calculations that end without a value: debool of a set that is not a singleton, a term over an element-typed
  // structure that has no data, and an axiom depending on it
  const auto d2 = m.Emplace(CstType::term, "debool(X1)");
  const auto s3 = m.Emplace(CstType::structured, "X1");
  const auto d3 = m.Emplace(CstType::term, "{S3}");
  const auto a2 = m.Emplace(CstType::axiom, "D3=D3");
  // base interpretation: contiguous keys 1..n or a key set with a gap (reachable through SetBasicText)
  const int keys = pick(4, "keys");
  bool gap = false;
  {
    TextInterpretation t;
    if (keys == 1) t.SetInterpretantFor(1, "a" + hard("name-char"));
    else if (keys == 2) { t.SetInterpretantFor(1, "a"); t.SetInterpretantFor(2, hard("name-char") + "b"); }
    else if (keys == 3) { t.SetInterpretantFor(1, "a"); t.SetInterpretantFor(3, "z"); gap = true; }
    if (keys != 0) m.Values().SetBasicText(x1, t);
  }
  switch (pick(5, "s1-data")) {
  case 0: break;
  case 1: m.Values().SetStructureData(s1, Factory::EmptySet()); break;
  case 2: m.Values().SetStructureData(s1, Factory::Set({Factory::EmptySet()})); break;
  case 3: m.Values().SetStructureData(s1, Factory::Set({Factory::EmptySet(), Factory::SetV({1})})); break;
  default: m.Values().SetStructureData(s1, Factory::Set({Factory::SetV({1})})); break;
  }
  if (pick(2, "s2-data")) m.Values().SetStructureData(s2, Factory::Tuple({Factory::Val(1), Factory::EmptySet()}));
  switch (pick(3, "calc")) { case 1: m.Calculations().Calculate(d1); break; case 2: m.Calculations().RecalculateAll(); break; default: break; }
  const nlohmann::ordered_json doc = m;
  RSModel n;
  doc.get_to(n);
  for (const auto u : {x1, s1, s2, d1, a1, d2, s3, d3, a2}) {
    sym_assert(n.Contains(u), "constituent-present");
    if (!n.Contains(u)) continue;
    sym_assert(recordString(m.Core(), u) == recordString(n.Core(), u), "record-identical");
    sym_assert(m.Calculations().WasCalculated(u) == n.Calculations().WasCalculated(u), "calculated-flag");
    sym_assert(m.Calculations()(u) == n.Calculations()(u), "evaluation-status");
    const auto va = m.Values().SDataFor(u), vb = n.Values().SDataFor(u);
    const char* dataTag = gap ? "data-identical[base-keys-with-gap]" : "data-identical";
    sym_assert(va.has_value() == vb.has_value() && (!va.has_value() || *va == *vb), dataTag);
    sym_assert(m.Values().StatementFor(u) == n.Values().StatementFor(u), "statement-identical");
    const auto* ta = m.Values().TextFor(u); const auto* tb = n.Values().TextFor(u);
    const bool sameTexts = (ta == nullptr || ta->empty()) ? (tb == nullptr || tb->empty()) : (tb != nullptr && *ta == *tb);
    sym_assert(sameTexts, gap ? "texts-identical[base-keys-with-gap]" : "texts-identical");
  }
  const nlohmann::ordered_json again = n;
  sym_assert(again.dump() == doc.dump(), gap ? "second-save-is-identical[base-keys-with-gap]" : "second-save-is-identical");
  sym_reach("model");
#endif
#ifdef WITNESS
  sym_assert(false, "witness");
#endif
}
