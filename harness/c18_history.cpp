// C18: reused analysers are history independent.  A sequence of K inputs (each a symbolic choice
// from a 26-entry menu: valid, lexically / syntactically / semantically invalid, function
// definitions, multi-line text, failing evaluations) is fed to ONE long-lived Parser, Auditor
// (through the schema), Interpreter and the library's shared static generators; after every call
// all observables must equal those of freshly constructed objects on the same input.
#include "sym.h"
#include "h_schema.h"
#include "ccl/rslang/Parser.h"
#include "ccl/rslang/Interpreter.h"
#include "ccl/rslang/RSGenerator.h"
#include <string>
#ifndef K
#define K 2
#endif
using namespace ccl;
using namespace ccl::rslang;
static const char* const MENU[] = {
  "X1\\X2", "X1\xE2\x88\xAA", "X1 \xE2\x88\xAA \xE2\x88\xAA X2", "D1\xE2\x88\xAAX9", "A1", "1=1", "",
  "[\xCE\xB1\xE2\x88\x88\xE2\x84\xAC(X1)] \xCE\xB1\xE2\x88\xAAX1", "[\xCE\xB1\xE2\x88\x88X1, \xCE\xB2\xE2\x88\x88\xE2\x84\xAC(X1)] \xCE\xB1\xE2\x88\x88\xCE\xB2", "card(X1)+1",
  "X1\n\xE2\x88\xAAX2", "X1\xE2\x88\xAA\nX9", "debool(X1)", "Pr1(S1)", "pr1(S1)", "\xE2\x88\x80\xCE\xBE\xE2\x88\x88X1 \xCE\xBE\xE2\x88\x88X1",
  "D{\xCE\xBE\xE2\x88\x88X1 | \xCE\xBE\xE2\x88\x89X2}", "\xE2\x84\xAC(\xE2\x84\xAC(X1))", "@", "{1,X1}", "F1[X1, X1]", "F1[X1]", "P1[X1] & A1",
  "R{\xCE\xBE:=X1 | \xCE\xBE\\X1}", "I{a | a:\xE2\x88\x88X1; a\xE2\x88\x88X2}", "\xE2\x88\x80\xCE\xBE\xE2\x88\x88X1 \xCE\xBE\xE2\x88\x88\xCE\xB6",
  // an error inside a scope nested in another scope (for every kind of binder), and inputs that declare or use the same names
  "\xE2\x88\x80\xCE\xBE\xE2\x88\x88X1 \xE2\x88\x83\xCE\xB6\xE2\x88\x88X1 (\xCE\xBE=\xCF\x89)", "D{\xCE\xBE\xE2\x88\x88X1 | \xE2\x88\x80\xCE\xB6\xE2\x88\x88X1 \xCE\xB6\xE2\x88\x88X9}", "I{a | a:\xE2\x88\x88X1; \xE2\x88\x80\xCE\xB6\xE2\x88\x88X1 \xCE\xB6=b}",
  "R{\xCE\xBE:=X1 | \xE2\x88\x83\xCE\xB6\xE2\x88\x88X1 \xCE\xB6=\xCF\x89 | \xCE\xBE}", "D{\xCE\xB6\xE2\x88\x88X1 | \xCE\xB6=\xCE\xBE}", "{a\xE2\x88\x88X1 | a=a}"};
static const int NMENU = sizeof(MENU) / sizeof(MENU[0]);

static std::string num(long long v) { return std::to_string(v); }
static std::string errorsOf(const ErrorLogger& log) {
  std::string o;
  for (const auto& e : log.All()) {
    o += "E" + num(e.eid) + "@" + num(e.position) + "(";
    for (const auto& p : e.params) o += p + ";";
    o += ")";
  }
  return o;
}
static std::string observeParser(Parser& p, const std::string& text) {
  std::string o = "P:";
  const bool ok = p.Parse(text, Syntax::MATH);
  o += num(ok) + errorsOf(p.Errors());
  if (ok) {
    o += AST2String::Apply(p.AST());
    const std::string math = Generator::FromTree(p.AST(), Syntax::MATH), ascii = Generator::FromTree(p.AST(), Syntax::ASCII);
    o += "|" + math + "|" + ascii;
    // the library's shared (static) generators must not carry anything over between calls or syntaxes: whatever was
    // generated before, the text for THIS tree must parse back in the syntax it was generated for
    { Parser back; sym_assert(back.Parse(math, Syntax::MATH) && AST2String::Apply(back.AST()) == AST2String::Apply(p.AST()), "generated-math-text-parses-back"); }
    { Parser back; sym_assert(back.Parse(ascii, Syntax::ASCII), "generated-ascii-text-parses-back"); }
  }
  return o;
}
static std::string observeAuditor(semantic::SchemaAuditor& a, const std::string& text) {
  std::string o = "A:";
  const bool ok = a.CheckExpression(text, Syntax::MATH);
  o += num(ok) + errorsOf(a.Errors());
  if (ok) {
    const auto& t = a.GetType();
    o += std::holds_alternative<LogicT>(t) ? std::string("LOGIC") : std::get<Typification>(t).ToString();
    for (const auto& arg : a.GetDeclarationArgs()) o += "[" + arg.name + ":" + arg.type.ToString() + "]";
    const bool vok = a.CheckValue();
    o += "V" + num(vok) + num((int)a.GetValueClass()) + errorsOf(a.Errors());
    o += AST2String::Apply(a.AST());
  }
  return o;
}
static std::string observeInterpreter(Interpreter& in, const std::string& text) {
  std::string o = "I:";
  const auto v = in.Evaluate(text, Syntax::MATH);
  o += num(v.has_value()) + errorsOf(in.Errors());
  if (v.has_value()) {
    if (std::holds_alternative<bool>(*v)) o += std::get<bool>(*v) ? "T" : "F";
    else o += std::get<object::StructuredData>(*v).ToString();
    o += "#" + num(in.Iterations());
  }
  return o;
}

extern "C" void harness_main() {
  semantic::RSModel model;
  hv::BuildContext(model);
  {
    auto x1 = model.Core().FindAlias("X1").value();
    model.Values().AddBasicElement(x1, "a");
    model.Values().AddBasicElement(x1, "b");
    auto x2 = model.Core().FindAlias("X2").value();
    model.Values().AddBasicElement(x2, "c");
    auto s1 = model.Core().FindAlias("S1").value();
    model.Values().SetStructureData(s1, object::Factory::Set({object::Factory::TupleV({1, 2})}));
    model.Calculations().RecalculateAll();
  }
  const auto dataCtx = [&](const std::string& name) -> std::optional<object::StructuredData> {
    const auto uid = model.Core().FindAlias(name);
    if (!uid.has_value()) return std::nullopt;
    return model.Values().SDataFor(*uid);
  };
  Parser longParser;
  auto longAuditor = model.RSLang().MakeAuditor();
  Interpreter longInterp(model.RSLang(), model.RSLang().ASTContext(), dataCtx);
  for (int step = 0; step < K; ++step) {
    const std::string text = MENU[sym_concretize_i32(sym_range(0, NMENU - 1, "input"))];
    {
      Parser fresh;
      sym_assert(observeParser(longParser, text) == observeParser(fresh, text), "parser-history-independent");
    }
    {
      auto fresh = model.RSLang().MakeAuditor();
      sym_assert(observeAuditor(*longAuditor, text) == observeAuditor(*fresh, text), "auditor-history-independent");
    }
    {
      Interpreter fresh(model.RSLang(), model.RSLang().ASTContext(), dataCtx);
      sym_assert(observeInterpreter(longInterp, text) == observeInterpreter(fresh, text), "interpreter-history-independent");
    }
  }
  sym_reach("compared");
#ifdef WITNESS
  sym_assert(false, "witness");
#endif
}
