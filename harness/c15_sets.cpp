// C15: structured data as a finite-set algebra with value semantics.
// Values are built in parallel as real StructuredData and as reference values (refs/ref_sets.h) from a
// pool of P SYMBOLIC int32 elements (order and equality cases are decided by the solver) and symbolic
// membership masks:
//   FAMILY 1: a, b, c subsets of {e0,e1,e2}                       (sets of elements)
//   FAMILY 2: a, b subsets of {e0,e1} x {e0,e1}                   (sets of pairs: projections)
//   FAMILY 3: a, b subsets of {{}, {e0}, {e1}, {e0,e1}}           (sets of sets: reduce, nesting)
//   FAMILY 4: lazy power set / Cartesian product against eagerly enumerated counterparts
#include "sym.h"
#include "ccl/rslang/StructuredData.h"
#include "ref_sets.h"
#include <vector>
#ifndef FAMILY
#define FAMILY 1
#endif
using namespace ccl;
using object::Factory; using object::StructuredData;
static int pick(int n, const char* name) { return sym_concretize_i32(sym_range(0, n - 1, name)); }

// structural equality real vs reference through the public API only (sets compared as sets)
static bool same(const StructuredData& r, const ref::Value& v) {
  if (r.IsElement()) return v.kind == ref::Value::ELEM && r.E().Value() == v.elem;
  if (r.IsTuple()) {
    if (v.kind != ref::Value::TUPLE || (size_t)r.T().Arity() != v.items.size()) return false;
    for (size_t i = 0; i < v.items.size(); ++i) if (!same(r.T().Component((rslang::Index)(i + 1)), v.items[i])) return false;
    return true;
  }
  if (v.kind != ref::Value::SET || (size_t)r.B().Cardinality() != v.items.size()) return false;
  size_t n = 0;
  for (const auto& e : r.B()) {
    ++n;
    bool found = false;
    for (const auto& w : v.items) if (same(e, w)) { found = true; break; }
    if (!found) return false;
  }
  return n == v.items.size();
}
static int sign(Comparison c) { return c == Comparison::LESS ? -1 : c == Comparison::GREATER ? 1 : c == Comparison::EQUAL ? 0 : 99; }

struct Pair { StructuredData real; ref::Value want; };
// builds the set of the candidates selected by mask, inserting them in a symbolic order and with a duplicate
static Pair buildSet(const std::vector<Pair>& candidates, unsigned mask, int orderCode) {
  std::vector<StructuredData> realElems; std::vector<ref::Value> refElems;
  const size_t n = candidates.size();
  for (size_t k = 0; k < n; ++k) {
    const size_t i = orderCode == 1 ? n - 1 - k : k;
    if (mask & (1u << i)) { realElems.push_back(candidates[i].real); refElems.push_back(candidates[i].want); }
  }
  if (orderCode == 2 && !realElems.empty()) realElems.push_back(realElems.front());     // duplicate
  return {Factory::Set(realElems), ref::MakeSet(refElems)};
}

static void checkIteration(const StructuredData& s, const char* tagOnce, const char* tagOrder) {
  std::vector<StructuredData> seen;
  for (const auto& e : s.B()) seen.push_back(e);
  sym_assert((int)seen.size() == s.B().Cardinality(), tagOnce);
  bool increasing = true, distinct = true;
  for (size_t i = 0; i + 1 < seen.size(); ++i) { if (!(seen[i] < seen[i + 1])) increasing = false; }
  for (size_t i = 0; i < seen.size(); ++i) for (size_t j = i + 1; j < seen.size(); ++j) if (seen[i] == seen[j]) distinct = false;
  sym_assert(distinct, tagOnce);
  sym_assert(increasing, tagOrder);
}

static void algebra(const Pair& a, const Pair& b) {
  sym_assert((a.real == b.real) == ref::Equal(a.want, b.want), "equality-is-extensional");
  sym_assert((a.real != b.real) == !ref::Equal(a.want, b.want), "inequality");
  const int ab = sign(a.real.Compare(b.real)), ba = sign(b.real.Compare(a.real));
  sym_assert(ab != 99 && ab == -ba, "compare-antisymmetric");
  sym_assert((ab == 0) == (a.real == b.real), "compare-equal-iff-equal");
  sym_assert((a.real < b.real) == (ab < 0), "less-is-compare");
  sym_assert(a.real.B().IsSubsetOrEq(b.real.B()) == ref::IsSubsetOrEq(a.want, b.want), "subset");
  sym_assert((uint32_t)a.real.B().Cardinality() == ref::Cardinality(a.want), "cardinality");
  sym_assert(a.real.B().IsEmpty() == (ref::Cardinality(a.want) == 0), "is-empty");
  sym_assert(same(a.real.B().Union(b.real.B()), ref::Union(a.want, b.want)), "union");
  sym_assert(same(a.real.B().Intersect(b.real.B()), ref::Intersect(a.want, b.want)), "intersect");
  sym_assert(same(a.real.B().Diff(b.real.B()), ref::Diff(a.want, b.want)), "diff");
  sym_assert(same(a.real.B().SymDiff(b.real.B()), ref::SymDiff(a.want, b.want)), "symdiff");
  checkIteration(a.real.B().Union(b.real.B()), "union-each-element-once", "union-iteration-increasing");
  checkIteration(a.real, "each-element-once", "iteration-increasing");
  // debool / singleton
  const auto d = ref::Debool(a.want);
  if (d.has_value()) { sym_assert(same(a.real.B().Debool(), *d), "debool"); sym_assert(same(Factory::Singleton(a.real.B().Debool()), a.want), "singleton-of-debool"); }
  sym_assert(same(Factory::Singleton(a.real), ref::Singleton(a.want)), "singleton");
  // value semantics: modifying a copy never changes the original
  {
    StructuredData copy = a.real;
    StructuredData second = copy;
    for (const auto& e : b.real.B()) (void)copy.ModifyB().AddElement(e);
    sym_assert(same(a.real, a.want), "copy-then-add-leaves-original");
    sym_assert(same(second, a.want), "copy-then-add-leaves-other-copy");
    sym_assert(same(copy, ref::Union(a.want, b.want)), "add-elements-is-union");
  }
}

extern "C" void harness_main() {
#if FAMILY == 4
  // concrete small elements here (ToString and the 2^n / product enumerations are compared)
  const int32_t e0 = sym_concretize_i32(sym_range(1, 3, "e0")), e1 = sym_concretize_i32(sym_range(1, 3, "e1")), e2 = sym_concretize_i32(sym_range(1, 3, "e2"));
#else
  const int32_t e0 = sym_i32("e0"), e1 = sym_i32("e1"), e2 = sym_i32("e2");
#endif
  const Pair E0{Factory::Val(e0), ref::MakeElem(e0)}, E1{Factory::Val(e1), ref::MakeElem(e1)}, E2{Factory::Val(e2), ref::MakeElem(e2)};
#if FAMILY == 1
  const std::vector<Pair> cand{E0, E1, E2};
  const Pair a = buildSet(cand, (unsigned)pick(8, "a"), pick(3, "a-order"));
  const Pair b = buildSet(cand, (unsigned)pick(8, "b"), 0);
  const Pair c = buildSet(cand, (unsigned)pick(8, "c"), 0);
  algebra(a, b);
  for (const auto& p : cand) sym_assert(a.real.B().Contains(p.real) == ref::Contains(a.want, p.want), "contains");
  // strict total order: transitivity on the triple
  const int ab = sign(a.real.Compare(b.real)), bc = sign(b.real.Compare(c.real)), ac = sign(a.real.Compare(c.real));
  if (ab <= 0 && bc <= 0) sym_assert(ac <= 0, "compare-transitive");
  if (ab < 0 && bc <= 0) sym_assert(ac < 0, "compare-transitive-strict");
  // algebraic laws on the triple
  sym_assert(a.real.B().Union(b.real.B()).B().Union(c.real.B()) == a.real.B().Union(b.real.B().Union(c.real.B()).B()), "union-associative");
  sym_assert(a.real.B().Intersect(b.real.B().Union(c.real.B()).B()) == a.real.B().Intersect(b.real.B()).B().Union(a.real.B().Intersect(c.real.B()).B()), "distributive");
  sym_reach("elements");
#elif FAMILY == 2
  const Pair P00{Factory::Tuple({E0.real, E0.real}), ref::MakeTuple({E0.want, E0.want})}, P01{Factory::Tuple({E0.real, E1.real}), ref::MakeTuple({E0.want, E1.want})},
             P10{Factory::Tuple({E1.real, E0.real}), ref::MakeTuple({E1.want, E0.want})}, P12{Factory::Tuple({E1.real, E2.real}), ref::MakeTuple({E1.want, E2.want})};
  const std::vector<Pair> cand{P00, P01, P10, P12};
  const Pair a = buildSet(cand, (unsigned)pick(16, "a"), pick(3, "a-order"));
  const Pair b = buildSet(cand, (unsigned)pick(16, "b"), 0);
  algebra(a, b);
  for (const auto& p : cand) sym_assert(a.real.B().Contains(p.real) == ref::Contains(a.want, p.want), "contains-pair");
  const auto p1 = ref::Projection(a.want, {1}), p2 = ref::Projection(a.want, {2}), p21 = ref::Projection(a.want, {2, 1});
  if (p1.has_value()) sym_assert(same(a.real.B().Projection({1}), *p1), "projection-1");
  if (p2.has_value()) sym_assert(same(a.real.B().Projection({2}), *p2), "projection-2");
  if (p21.has_value()) sym_assert(same(a.real.B().Projection({2, 1}), *p21), "projection-2-1");
  // every index list of length 1..3 over {1,2}: repeated indices (diagonal), identity, longer than the arity
  for (const std::vector<int16_t>& idx : std::vector<std::vector<int16_t>>{{1, 1}, {2, 2}, {1, 2}, {1, 1, 2}, {2, 1, 2}, {2, 2, 1}}) {
    const auto want = ref::Projection(a.want, idx);
    if (want.has_value()) sym_assert(same(a.real.B().Projection(idx), *want), "projection-index-list");
  }
  sym_assert((P01.real == P10.real) == (e0 == e1), "tuple-equality-positional");
  sym_reach("pairs");
#elif FAMILY == 3
  const std::vector<Pair> inner{E0, E1};
  std::vector<Pair> cand;
  for (unsigned m = 0; m < 4; ++m) cand.push_back(buildSet(inner, m, 0));
  const Pair a = buildSet(cand, (unsigned)pick(16, "a"), pick(3, "a-order"));
  const Pair b = buildSet(cand, (unsigned)pick(16, "b"), 0);
  algebra(a, b);
  for (const auto& p : cand) sym_assert(a.real.B().Contains(p.real) == ref::Contains(a.want, p.want), "contains-set");
  sym_assert(same(a.real.B().Reduce(), ref::Reduce(a.want)), "reduce");
  sym_reach("nested");
#else
  const std::vector<Pair> cand{E0, E1, E2};
  const Pair base = buildSet(cand, (unsigned)pick(8, "base"), 0);
  // subset test with a lazy set on either side
  {
    const StructuredData lazyP = Factory::Boolean(base.real);
    const auto wantP = ref::Powerset(base.want, 64);
    const Pair small = buildSet(cand, (unsigned)pick(8, "small"), 0);
    const StructuredData smallSets = Factory::Set({small.real});
    if (wantP.has_value()) {
      sym_assert(lazyP.B().IsSubsetOrEq(smallSets.B()) == ref::IsSubsetOrEq(*wantP, ref::MakeSet({small.want})), "lazy-powerset-subset-of-enumerated");
      sym_assert(smallSets.B().IsSubsetOrEq(lazyP.B()) == ref::IsSubsetOrEq(ref::MakeSet({small.want}), *wantP), "enumerated-subset-of-lazy-powerset");
      sym_assert(lazyP.B().IsSubsetOrEq(Factory::EmptySet().B()) == (ref::Cardinality(*wantP) == 0), "lazy-powerset-subset-of-empty");
    }
    const StructuredData lazyD = Factory::Decartian({base.real, base.real});
    const auto wantD = ref::Product({base.want, base.want}, 64);
    if (wantD.has_value()) sym_assert(lazyD.B().IsSubsetOrEq(Factory::EmptySet().B()) == (ref::Cardinality(*wantD) == 0), "lazy-product-subset-of-empty");
  }
  const Pair other = buildSet(cand, (unsigned)pick(4, "other"), 0);
  // lazy power set
  {
    const StructuredData lazy = Factory::Boolean(base.real);
    const auto want = ref::Powerset(base.want, 64);
    sym_assert(want.has_value() && same(lazy, *want), "lazy-powerset-elements");
    std::vector<StructuredData> all; for (const auto& e : lazy.B()) all.push_back(e);
    const StructuredData eager = Factory::Set(all);
    sym_assert(lazy == eager && eager == lazy, "lazy-powerset-equals-enumerated");
    sym_assert(lazy.ToString() == eager.ToString(), "lazy-powerset-tostring");
    sym_assert(sign(lazy.Compare(eager)) == 0, "lazy-powerset-compare-equal");
    checkIteration(lazy, "powerset-each-once", "powerset-iteration-increasing");
    sym_assert(lazy.B().Contains(other.real) == ref::IsSubsetOrEq(other.want, base.want), "powerset-membership");
    sym_assert(same(lazy.B().Union(eager.B()), *want), "powerset-union-with-itself");
    // every binary operation with the lazy set on either side and an enumerated set of sets that is NOT a subset of it
    {
      const Pair foreign = buildSet(cand, 7u, 0);                                       // {e0,e1,e2}: a subset of base only if base is everything
      const StructuredData others = Factory::Set({other.real, foreign.real, Factory::SetV({9})});
      const ref::Value wantOthers = ref::MakeSet({other.want, foreign.want, ref::MakeSet({ref::MakeElem(9)})});
      sym_assert(same(lazy.B().Union(others.B()), ref::Union(*want, wantOthers)), "lazy-powerset-union-enumerated");
      sym_assert(same(others.B().Union(lazy.B()), ref::Union(wantOthers, *want)), "enumerated-union-lazy-powerset");
      sym_assert(lazy.B().Union(others.B()) == others.B().Union(lazy.B()), "union-commutes-with-lazy-operand");
      sym_assert(same(lazy.B().Intersect(others.B()), ref::Intersect(*want, wantOthers)) && same(others.B().Intersect(lazy.B()), ref::Intersect(wantOthers, *want)), "intersect-with-lazy-powerset");
      sym_assert(same(lazy.B().Diff(others.B()), ref::Diff(*want, wantOthers)) && same(others.B().Diff(lazy.B()), ref::Diff(wantOthers, *want)), "diff-with-lazy-powerset");
      sym_assert(same(lazy.B().SymDiff(others.B()), ref::SymDiff(*want, wantOthers)), "symdiff-with-lazy-powerset");
      sym_assert(others.B().IsSubsetOrEq(lazy.B().Union(others.B()).B()), "operand-is-subset-of-union");
    }
    sym_assert(same(lazy.B().Reduce(), base.want), "reduce-of-powerset");
  }
  // lazy product
  {
    const StructuredData lazy = Factory::Decartian({base.real, other.real});
    const auto want = ref::Product({base.want, other.want}, 64);
    sym_assert(want.has_value() && same(lazy, *want), "lazy-product-elements");
    std::vector<StructuredData> all; for (const auto& e : lazy.B()) all.push_back(e);
    const StructuredData eager = Factory::Set(all);
    sym_assert(lazy == eager && eager == lazy, "lazy-product-equals-enumerated");
    sym_assert(lazy.ToString() == eager.ToString(), "lazy-product-tostring");
    checkIteration(lazy, "product-each-once", "product-iteration-increasing");
    const auto p1 = ref::Projection(*want, {1});
    if (p1.has_value() && ref::Cardinality(other.want) > 0) sym_assert(same(lazy.B().Projection({1}), *p1), "product-projection");
    {
      const StructuredData pairs = Factory::Set({Factory::Tuple({Factory::Val(9), Factory::Val(9)}), Factory::Tuple({E0.real, E1.real})});
      const ref::Value wantPairs = ref::MakeSet({ref::MakeTuple({ref::MakeElem(9), ref::MakeElem(9)}), ref::MakeTuple({E0.want, E1.want})});
      sym_assert(same(lazy.B().Union(pairs.B()), ref::Union(*want, wantPairs)), "lazy-product-union-enumerated");
      sym_assert(same(pairs.B().Union(lazy.B()), ref::Union(wantPairs, *want)), "enumerated-union-lazy-product");
      sym_assert(same(lazy.B().Intersect(pairs.B()), ref::Intersect(*want, wantPairs)) && same(pairs.B().Diff(lazy.B()), ref::Diff(wantPairs, *want)), "intersect-diff-with-lazy-product");
    }
    StructuredData copy = lazy;
    (void)copy.ModifyB().AddElement(Factory::Tuple({E0.real, E0.real}));
    sym_assert(lazy == eager, "modified-copy-of-lazy-leaves-original");
  }
  // larger bases (the enumeration of k-combinations has more than one position to refill only from 4 elements on)
  {
    const int n = pick(6, "big-base-size");
    std::vector<StructuredData> elems; std::vector<ref::Value> wantElems;
    for (int i = 1; i <= n; ++i) { elems.push_back(Factory::Val(i)); wantElems.push_back(ref::MakeElem(i)); }
    const StructuredData bigBase = Factory::Set(elems);
    const ref::Value wantBase = ref::MakeSet(wantElems);
    const StructuredData lazy = Factory::Boolean(bigBase);
    const auto want = ref::Powerset(wantBase, 64);
    sym_assert(want.has_value() && same(lazy, *want), "big-powerset-elements");
    checkIteration(lazy, "big-powerset-each-once", "big-powerset-iteration-increasing");
    int count = 0; for (const auto& e : lazy.B()) { (void)e; ++count; }
    sym_assert(count == (1 << n) && lazy.B().Cardinality() == (1 << n), "big-powerset-cardinality");
    std::vector<StructuredData> all; for (const auto& e : lazy.B()) all.push_back(e);
    sym_assert(lazy == Factory::Set(all), "big-powerset-equals-enumerated");
    if (n >= 2) {
      const StructuredData lazyD = Factory::Decartian({bigBase, bigBase, Factory::SetV({1, 2})});
      const auto wantD = ref::Product({wantBase, wantBase, ref::MakeSet({ref::MakeElem(1), ref::MakeElem(2)})}, 64);
      if (wantD.has_value()) { sym_assert(same(lazyD, *wantD), "big-product-elements"); checkIteration(lazyD, "big-product-each-once", "big-product-iteration-increasing"); }
    }
  }
  sym_reach("lazy");
#endif
#ifdef WITNESS
  sym_assert(false, "witness");
#endif
}
