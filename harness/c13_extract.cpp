// C13: basis and maximal-part extraction.
// Source schema: X1 and NV terms D1..DNV whose definitions are generated from a SYMBOLIC dependency
// matrix (Di := X1 [∪ Dj ...], cycles included); one symbolic member may have an empty or an incorrect
// definition; the list order of the terms is a symbolic permutation (MoveBefore); every selection
// (subset of the constituents) is tried.  Oracle: closure computed on the matrix (ref_closure below).
#include "sym.h"
#include "ccl/semantic/RSForm.h"
#include "ccl/ops/RSOperations.h"
#include <string>
#include <vector>
#ifndef NV
#define NV 3
#endif
using namespace ccl;
using namespace ccl::semantic;
static int pick(int n, const char* name) { return sym_concretize_i32(sym_range(0, n - 1, name)); }

extern "C" void harness_main() {
  // ---- description of the source
  bool dep[NV][NV];
  for (int i = 0; i < NV; ++i) for (int j = 0; j < NV; ++j) dep[i][j] = (i != j) && sym_bool("dep");
#ifdef SELF_LOOPS
  for (int i = 0; i < NV; ++i) dep[i][i] = sym_bool("self-dep");
#endif
  const int special = pick(3 * NV + 1, "special");          // 0 none, 1..NV: Dk empty, NV+1..2NV: Dk ill-typed, 2NV+1..3NV: Dk with a character the lexer does not know
  const int emptyOne = special >= 1 && special <= NV ? special - 1 : -1;
  const int wrongOne = special > NV && special <= 2 * NV ? special - NV - 1 : -1;
  const int garbledOne = special > 2 * NV ? special - 2 * NV - 1 : -1;
  RSForm src;
  std::vector<EntityUID> uid(NV + 1);
  uid[0] = src.Emplace(CstType::base);
  for (int i = 0; i < NV; ++i) {
    std::string def;
    if (i != emptyOne) {
      def = "X1";
      for (int j = 0; j < NV; ++j) if (dep[i][j]) def += "\xE2\x88\xAA" "D" + std::to_string(j + 1);
      if (i == wrongOne) def += "\xE2\x88\xAA" "1";          // ill-typed, keeps its dependencies
      if (i == garbledOne) def = "X1 ? " + def.substr(2);     // unknown character before the mentions: incorrect, keeps its dependencies
    }
    uid[(size_t)i + 1] = src.Emplace(CstType::term, def);
  }
  // symbolic list order of the terms: every permutation, produced by MoveBefore (insertion order code)
  {
    std::vector<EntityUID> placed;
    for (int i = 0; i < NV; ++i) {
      const int where = pick(i + 1, "insert-at");             // position among the already placed terms
      auto it = src.List().begin(); ++it;                       // after X1
      for (int k = 0; k < where; ++k) ++it;
      // terms not yet placed follow; move Di before the element currently at that position
      (void)src.MoveBefore(uid[(size_t)i + 1], it);
      placed.push_back(uid[(size_t)i + 1]);
    }
  }
  // optionally one term is renamed WITHOUT substituting its mentions (a legal call): definitions that mentioned it keep a
  // name that no longer resolves, i.e. they lose that dependency
  int renamed = -1;
#ifdef RENAME
  {
    // aliases D11.. first (ordinary renames with substitution), so that the name left dangling below cannot be captured by the
    // renumbering D1.. of the extracted schema (capture of dangling names is a separate matter)
    for (int k = 1; k <= NV; ++k) (void)src.SetAliasFor(uid[(size_t)k], "D1" + std::to_string(k), true);
    for (const auto u : src.List()) (void)src.RSLang().Graph().InputsFor(u);     // the dependency graph has been looked at
    const int r = pick(NV + 1, "renamed-without-substitution");
    if (r > 0 && src.SetAliasFor(uid[(size_t)r], "D9", false)) renamed = r - 1;
  }
#endif
  std::vector<int> order;                                     // index (0 = X1, k = Dk) in list order
  for (const auto u : src.List()) for (int k = 0; k <= NV; ++k) if (uid[(size_t)k] == u) order.push_back(k);
  sym_assert((int)order.size() == NV + 1, "source-list-complete");

  auto inputsOf = [&](int k, unsigned& mask) {               // reference dependencies (bit 0 = X1)
    mask = 0;
    if (k == 0 || k - 1 == emptyOne) return;
    mask |= 1u;
    for (int j = 0; j < NV; ++j) if (dep[k - 1][j] && j != renamed) mask |= 1u << (j + 1);
  };
  auto compare = [&](const RSForm& res, unsigned expectMask, const char* what) {
    std::vector<int> expectOrder;
    for (int k : order) if (expectMask & (1u << k)) expectOrder.push_back(k);
    std::vector<EntityUID> got; for (const auto u : res.List()) got.push_back(u);
    sym_assert(got.size() == expectOrder.size(), what);
    if (got.size() != expectOrder.size()) return;
    // alias renumbering by position
    std::vector<std::string> newAlias(NV + 1);
    for (size_t i = 0; i < got.size(); ++i) newAlias[(size_t)expectOrder[i]] = res.GetRS(got[i]).alias;
    for (size_t i = 0; i < got.size(); ++i) {
      const int k = expectOrder[i];
      const auto& r = res.GetRS(got[i]);
      const auto& s = src.GetRS(uid[(size_t)k]);
      sym_assert(r.type == s.type, "kind-preserved");
      sym_assert(res.GetParse(got[i]).status == src.GetParse(uid[(size_t)k]).status, "status-preserved");
      // dependencies that resolved in the source resolve in the result
      unsigned in; inputsOf(k, in);
      sym_assert((size_t)res.RSLang().Graph().InputsFor(got[i]).size() == (size_t)src.RSLang().Graph().InputsFor(uid[(size_t)k]).size(), "no-dangling-mention");
      for (int j = 0; j <= NV; ++j)
        if ((in & (1u << j)) && (expectMask & (1u << j)))
          sym_assert(r.definition.find(newAlias[(size_t)j]) != std::string::npos, "mentions-renumbered-alias");
      const auto* ts = src.GetParse(uid[(size_t)k]).Typification();
      const auto* tr = res.GetParse(got[i]).Typification();
      sym_assert((ts == nullptr) == (tr == nullptr), "typed-iff-typed");
      if (ts != nullptr && tr != nullptr) sym_assert(ts->ToString() == tr->ToString(), "typification-preserved");   // only X1 -> X1 here
    }
  };

  for (unsigned sel = 0; sel < (1u << (NV + 1)); ++sel) {
    SetOfEntities args;
    for (int k = 0; k <= NV; ++k) if (sel & (1u << k)) args.insert(uid[(size_t)k]);
    // ---- basis = reflexive-transitive input closure
    {
      ops::OpExtractBasis op(src, args);
      sym_assert(op.IsCorrectlyDefined() == (sel != 0), "basis-defined-iff-nonempty");
      auto res = op.Execute();
      sym_assert((res != nullptr) == (sel != 0), "basis-result-iff-defined");
      if (res != nullptr) {
        unsigned closure = sel;
        for (int round = 0; round <= NV; ++round)
          for (int k = 0; k <= NV; ++k) if (closure & (1u << k)) { unsigned in; inputsOf(k, in); closure |= in; }
        compare(*res, closure, "basis-is-the-input-closure");
        sym_reach("basis");
      }
    }
    // ---- maximal part = least fixed point of "non-empty definition and all inputs inside"
    {
      ops::OpMaxPart op(src, args);
      auto res = op.Execute();
      if (res != nullptr) {
        unsigned part = sel;
        for (int round = 0; round <= NV; ++round)
          for (int k = 1; k <= NV; ++k) {
            if (part & (1u << k)) continue;
            if (k - 1 == emptyOne) continue;
            unsigned in; inputsOf(k, in);
            if ((in & ~part) == 0) part |= 1u << k;
          }
        compare(*res, part, "maxpart-is-the-least-fixed-point");
        sym_reach("maxpart");
      }
    }
  }
#ifdef WITNESS
  sym_assert(false, "witness");
#endif
}
