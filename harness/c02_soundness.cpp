// C02: type soundness.  For every expression of the C03 families (plus integer corner-case atoms)
// that the type checker accepts, evaluation under every data context of the bounded family
//   X1 = {1..n1}, X2 = {1..n2} (n1,n2 symbolic in 0..2), S1 one of 4 relations over X1,
//   S2 / S3 structure values, C1 empty or {5}
// never faults (engine-level: memory safety, undefined behaviour incl. signed overflow, escaped
// exceptions), never logs ValueEID::unknownError, and a produced value is a truth value exactly
// when the reported type is LOGIC and otherwise has the structure of the reported typification.
#include "sym.h"
#include "h_schema.h"
#include "h_types.h"
#include "h_exprs.h"
#include "ccl/rslang/Interpreter.h"
#include "ccl/rslang/RSErrorCodes.hpp"
using namespace ccl;
using namespace ccl::rslang;
using object::Factory;
extern "C" void harness_main() {
  semantic::RSModel model;
  hv::BuildContext(model);
  model.Emplace(semantic::CstType::structured, "X1\xC3\x97\xE2\x84\xAC(X1)");   // S3
  model.Emplace(semantic::CstType::function, "[\xCE\xB1\xE2\x88\x88\xE2\x84\xAC(X1)] F1[\xCE\xB1\xE2\x88\xAAX1, debool({1})]\xE2\x88\xA9\xCE\xB1");   // F2: nested call
  // F3, F4: bodies whose ROOT is a construct that the normaliser rewrites (tuple pattern, multi-variable quantifier)
  model.Emplace(semantic::CstType::function, "[\xCE\xB1\xE2\x88\x88\xE2\x84\xAC(X1\xC3\x97X1)] I{(\xCE\xB6,\xCE\xBE) | (\xCE\xBE,\xCE\xB6):\xE2\x88\x88\xCE\xB1}");
  model.Emplace(semantic::CstType::predicate, "[\xCE\xB1\xE2\x88\x88\xE2\x84\xAC(X1)] \xE2\x88\x80\xCE\xBE,\xCE\xB6\xE2\x88\x88\xCE\xB1 \xCE\xBE=\xCE\xB6");   // P2
  auto uid = [&](const char* a) { return model.Core().FindAlias(a).value(); };
  const std::string text = hv::GenExpression();
  auto auditor = model.RSLang().MakeAuditor();
  if (!auditor->CheckExpression(text, Syntax::MATH)) { sym_reach("not-accepted"); return; }
  if (!auditor->GetDeclarationArgs().empty()) { sym_reach("function-definition"); return; }
  const int n1 = sym_concretize_i32(sym_range(0, 2, "|X1|"));
  const int n2 = sym_concretize_i32(sym_range(0, 1, "|X2|"));
  for (int i = 0; i < n1; ++i) model.Values().AddBasicElement(uid("X1"), std::string(1, (char)('a' + i)));
  for (int i = 0; i < n2; ++i) model.Values().AddBasicElement(uid("X2"), std::string(1, (char)('p' + i)));
  if (sym_bool("C1-nonempty")) model.Values().AddBasicElement(uid("C1"), "five");
  if (n1 >= 1) {
    const int rel = sym_concretize_i32(sym_range(0, 3, "S1"));
    std::vector<object::StructuredData> pairs;
    if (rel >= 1) pairs.push_back(Factory::TupleV({1, 1}));
    if (rel >= 2 && n1 >= 2) pairs.push_back(Factory::TupleV({1, 2}));
    if (rel >= 3 && n1 >= 2) pairs.push_back(Factory::TupleV({2, 1}));
    model.Values().SetStructureData(uid("S1"), Factory::Set(pairs));
    model.Values().SetStructureData(uid("S2"), Factory::Set({Factory::SetV({1}), Factory::EmptySet()}));
    model.Values().SetStructureData(uid("S3"), Factory::Tuple({Factory::Val(1), Factory::SetV({1})}));
  }
  model.Calculations().RecalculateAll();
  const auto dataCtx = [&](const std::string& name) -> std::optional<object::StructuredData> {
    const auto id = model.Core().FindAlias(name);
    if (!id.has_value()) return std::nullopt;
    return model.Values().SDataFor(*id);
  };

  const ExpressionType type = auditor->GetType();
  Interpreter interp(model.RSLang(), model.RSLang().ASTContext(), dataCtx);
  const auto value = interp.Evaluate(text, Syntax::MATH);
  sym_note(text.c_str());
  for (const auto& e : interp.Errors().All()) sym_note(std::to_string(e.eid).c_str());
  for (const auto& e : interp.Errors().All())
    sym_assert(e.eid != static_cast<uint32_t>(ValueEID::unknownError), (text.find("::=") != std::string::npos || (text.size() > 3 && text.compare(text.size() - 3, 3, ":==") == 0)) ? "no-unknown-evaluation-error[declaration-without-value]" : "no-unknown-evaluation-error");
  if (!value.has_value()) { sym_reach("evaluation-failed-with-report"); sym_assert(interp.Errors().HasCriticalErrors(), "failure-is-reported"); return; }
  if (std::holds_alternative<LogicT>(type)) {
    sym_assert(std::holds_alternative<bool>(*value), "logic-type-gives-truth-value");
  } else {
    sym_assert(std::holds_alternative<object::StructuredData>(*value), "typed-expression-gives-data");
    if (std::holds_alternative<object::StructuredData>(*value))
      sym_assert(hv::FullCompat(std::get<object::StructuredData>(*value), std::get<Typification>(type)), "value-has-the-reported-structure");
  }
  sym_reach("evaluated");
#ifdef WITNESS
  sym_assert(false, "witness");
#endif
}
