// shared expression families for the analyser harnesses (C01, C02, C03): templates over every
// operator / constructor with ATOM slots and operator slots (FAMILY selects the template list).
#pragma once
#include "sym.h"
#include <string>
#ifndef FAMILY
#define FAMILY 1
#endif
namespace hv {
static const char* const ATOMS[] = {"X1", "X2", "C1", "S1", "S2", "S3", "D1", "D2", "A1", "1", "\xE2\x88\x85", "(X1,D2)", "X9", "F1", "Z"
#ifdef BIG_INTS
  , "2147483647", "card(X1)", "(0-2147483647)"
#endif
};
static const int NATOMS = sizeof(ATOMS) / sizeof(ATOMS[0]);
static const char* const BINOPS[] = {"+", "-", "*", "\xE2\x88\xAA", "\xE2\x88\xA9", "\\", "\xE2\x88\x86", "\xC3\x97",
  "\xE2\x88\x88", "\xE2\x88\x89", "\xE2\x8A\x82", "\xE2\x8A\x86", "\xE2\x8A\x84", "=", "\xE2\x89\xA0", "<", "\xE2\x89\xA4", ">", "\xE2\x89\xA5"};
static const int NBINOPS = sizeof(BINOPS) / sizeof(BINOPS[0]);
#if FAMILY == 1      // every binary operator / predicate over every pair of atoms
static const char* const TEMPLATES[] = {"%a%o%a"};
#elif FAMILY == 2    // unary constructs, enumerations, tuples, calls, logic
static const char* const TEMPLATES[] = {"\xE2\x84\xAC(%a)", "card(%a)", "debool(%a)", "red(%a)", "bool(%a)", "pr1(%a)", "pr2(%a)", "pr3(%a)", "Pr1(%a)", "Pr1,2(%a)", "Pr2,1(%a)",
  "{%a,%a}", "(%a,%a)", "\xC2\xAC%a", "%a & %a", "%a=%a \xE2\x87\x92 %a", "F1[%a, %a]", "F1[%a]", "F2[%a]", "F2[%a]\xE2\x88\xAA%a", "F2[%a]=%a", "P1[%a]", "F3[%a]", "card(F3[%a])=card(%a)", "P2[%a]", "P2[%a] & %a=%a", "P1[%a] & %a=%a", "Fi1[%a](%a)", "Fi2[%a](%a)", "Fi1,2[%a,%a](S1)", "Fi1,2[%a](S1)",
  "%a:==", "D9:==%a", "S9::=%a", "S9::=\xE2\x84\xAC(%a\xC3\x97%a)",
  // lazily represented operands (power set, product) on either side of a set operation
  "\xE2\x84\xAC(%a)\xE2\x88\xAA{%a}", "{%a}\xE2\x88\xAA\xE2\x84\xAC(%a)", "(%a\xC3\x97%a)\xE2\x88\xAAS1", "S1\xE2\x88\xAA(%a\xC3\x97%a)", "\xE2\x84\xAC(%a)\\{%a}", "(%a\xC3\x97%a)\xE2\x88\xA9S1", "\xE2\x84\xAC(%a)\xE2\x8A\x86S2", "(%a\xC3\x97%a)\xE2\x8A\x86S1"};
#elif FAMILY == 3    // binders
static const char* const TEMPLATES[] = {"\xE2\x88\x80\xCE\xBE\xE2\x88\x88%a \xCE\xBE\xE2\x88\x88%a", "\xE2\x88\x83\xCE\xBE\xE2\x88\x88%a \xCE\xBE=%a", "\xE2\x88\x80(a,b)\xE2\x88\x88%a a=b", "\xE2\x88\x80(a,b)\xE2\x88\x88%a a\xE2\x88\x88" "b",
  "\xE2\x88\x80" "a,b\xE2\x88\x88%a a=b", "D{\xCE\xBE\xE2\x88\x88%a | \xCE\xBE\xE2\x88\x88%a}", "{\xCE\xBE\xE2\x88\x88%a | \xCE\xBE=%a}", "D{(a,b)\xE2\x88\x88%a | a=b}",
  "R{\xCE\xBE:=%a | \xCE\xBE\xE2\x88\xAA%a}", "R{\xCE\xBE:=%a | \xCE\xBE=\xCE\xBE | \xCE\xBE\\%a}", "I{a | a:\xE2\x88\x88%a; a\xE2\x88\x88%a}", "I{(a,b) | a:\xE2\x88\x88%a; b:=%a}",
  "[\xCE\xB1\xE2\x88\x88%a] \xCE\xB1\xE2\x88\xAA%a", "[\xCE\xB1\xE2\x88\x88\xE2\x84\xAC(R1), \xCE\xB2\xE2\x88\x88%a] \xCE\xB1\\{\xCE\xB2}", "\xE2\x88\x80\xCE\xBE\xE2\x88\x88%a \xE2\x88\x80\xCE\xBE\xE2\x88\x88%a \xCE\xBE=\xCE\xBE", "\xE2\x88\x80\xCE\xBE\xE2\x88\x88%a \xCE\xB6=\xCE\xBE",
  "\xE2\x88\x80\xCE\xBE\xE2\x88\x88%a \xCE\xBE=\xCE\xBE & \xCE\xBE=%a", "[a\xE2\x88\x88" "D{b\xE2\x88\x88%a | b=b}, b\xE2\x88\x88%a] b", "[a\xE2\x88\x88%a, b\xE2\x88\x88\xE2\x84\xAC(a)] b",
  "I{1 | a:\xE2\x88\x88%a}", "I{%a | a:\xE2\x88\x88%a; b:=a}", "R{\xCE\xBE:=%a | {\xCE\xBE}}", "R{\xCE\xBE:=%a | \xCE\xBE\xE2\x88\xAA{\xCE\xBE}}",
  // recursion whose condition must be typed with the STABLE type of the variable; a bound name re-declared in a sibling scope with another type
  "R{\xCE\xBE:=%a | \xCE\xBE=%a | \xCE\xBE\xE2\x88\xAA{%a}}", "R{\xCE\xBE:=%a | \xCE\xBE\xE2\x8A\x86%a | \xCE\xBE\xE2\x88\xAA%a}",
  "\xE2\x88\x80" "a\xE2\x88\x88%a pr1(a)\xE2\x88\x88X1 & \xE2\x88\x80" "a\xE2\x88\x88%a pr1(a)\xE2\x88\x88X1", "\xE2\x88\x80" "a\xE2\x88\x88%a a\xE2\x88\x88X1 & \xE2\x88\x83" "a\xE2\x88\x88%a a\xE2\x8A\x86X1",
  // a bound name re-used at another nesting depth (deeper: the use after the inner binder is out of scope; shallower: the use after a nested binder is in scope)
  "\xE2\x88\x80" "a\xE2\x88\x88%a a=a & \xE2\x88\x80" "c\xE2\x88\x88%a (\xE2\x88\x80" "a\xE2\x88\x88X1 a=c & a=c)",
  "\xE2\x88\x80" "c\xE2\x88\x88%a \xE2\x88\x80" "a\xE2\x88\x88X1 a=c & \xE2\x88\x80" "a\xE2\x88\x88%a (\xE2\x88\x80" "b\xE2\x88\x88X1 b=a & a=a)",
  "D{c\xE2\x88\x88%a | \xE2\x88\x83" "a\xE2\x88\x88X1 a=c} \xE2\x88\xAA D{a\xE2\x88\x88%a | \xE2\x88\x83" "b\xE2\x88\x88X1 b=a & a=a}",
  // tuple patterns that re-use a name at another position / nesting in a sibling binder
  "I{a | (a,b):\xE2\x88\x88%a}\xE2\x88\xAAI{a | (b,a):\xE2\x88\x88%a}", "\xE2\x88\x80(a,b)\xE2\x88\x88%a a=a & \xE2\x88\x83(b,a)\xE2\x88\x88%a a\xE2\x88\x88X2",
  "D{(a,b)\xE2\x88\x88%a | b=b}\xE2\x88\xAA" "D{(c,a)\xE2\x88\x88%a | a\xE2\x88\x88X2}", "I{b | (a,(b,c)):\xE2\x88\x88%a}\xE2\x88\xAAI{b | ((b,c),a):\xE2\x88\x88%a}",
  // an iteration domain that depends on a variable bound by an earlier block
  "I{(a,b) | a:\xE2\x88\x88%a; b:\xE2\x88\x88" "a}", "I{(a,b) | a:\xE2\x88\x88%a; b:\xE2\x88\x88%a\\{a}}", "I{(a,c) | (a,b):\xE2\x88\x88%a; c:\xE2\x88\x88" "b}"};
#else                // three atoms, two operators
static const char* const TEMPLATES[] = {"%a%o%a%o%a"};
#endif
static const int NTEMPL = sizeof(TEMPLATES) / sizeof(TEMPLATES[0]);
inline std::string GenExpression() {
  const char* tpl = TEMPLATES[sym_concretize_i32(sym_range(0, NTEMPL - 1, "template"))];
  std::string text;
  for (const char* p = tpl; *p; ++p) {
    if (*p != '%') { text += *p; continue; }
    ++p;
    if (*p == 'a') text += ATOMS[sym_concretize_i32(sym_range(0, NATOMS - 1, "atom"))];
#if FAMILY == 4
    else text += BINOPS[sym_concretize_i32(sym_range(0, 7, "set-op"))];
#else
    else text += BINOPS[sym_concretize_i32(sym_range(0, NBINOPS - 1, "operator"))];
#endif
  }
  return text;
}
}  // namespace hv
