// C04 / parse-bytes: Parser::Parse on every byte string of at most N bytes under each syntax hint:
// returns normally, no fault, result==false <=> a critical error was logged, positions inside input.
#include "sym.h"
#include "ccl/rslang/Parser.h"
#include "ccl/Strings.hpp"
#ifndef N
#define N 2
#endif
#ifndef SYNTAX
#define SYNTAX 0
#endif
using namespace ccl::rslang;
extern "C" void harness_main() {
  char buf[N + 1];
  sym_bytes(buf, N, "text");
  buf[N] = 0;
  int n = sym_concretize_i32(sym_range(0, N, "len"));
  for (int i = 0; i < n; ++i) sym_assume(buf[i] != 0);   // embedded NUL is outside the claim
  std::string text(buf, (size_t)n);
  const Syntax hint = SYNTAX == 0 ? Syntax::MATH : SYNTAX == 1 ? Syntax::ASCII : Syntax::UNDEF;
  Parser parser;
  const bool ok = parser.Parse(text, hint);
  const auto& log = parser.Errors();
  sym_assert(ok == !log.HasCriticalErrors(), "verdict-iff-no-critical-error");
  for (const auto& e : log.All()) {
    sym_assert(e.position >= 0 && e.position <= n, "error-position-inside-input");
  }
  if (ok) sym_reach("accepted"); else sym_reach("rejected");
#ifdef WITNESS
  sym_assert(false, "witness");
#endif
}
