// C11: an interpreted model never shows a stale calculated value.
// Model: X1 (2 named elements), S1 in B(X1) with data, term-function F1, D1 := t1(X1,S1,F1), D2 := t2(D1), A1 := p(D2,X1,F1)
// with templates chosen symbolically; everything calculated; then K mutators with symbolic kind and
// arguments.  Oracle: a model rebuilt from the records and base/structure data of the final state and recalculated from scratch:
// every constituent that reports a calculated value must report exactly that value; structure data
// must only contain elements that still exist in the base sets.
#include "sym.h"
#include "ccl/semantic/RSModel.h"
#include "ccl/tools/JSON.h"
#include <string>
#ifndef K
#define K 1
#endif
using namespace ccl;
using namespace ccl::semantic;
using object::Factory;
static int pick(int n, const char* name) { return sym_concretize_i32(sym_range(0, n - 1, name)); }
static const char* const T1[] = {"X1\\S1", "X1", "S1", "F1[X1]\xE2\x88\xAAS1"};    // the last one depends on the term-function F1
static const char* const T2[] = {"D1", "D1\xE2\x88\xAAX1", "\xE2\x84\xAC(D1)", "X1\\D1"};
static const char* const PA[] = {"D2=D2", "card(D1)=card(X1)", "F1[D1]=X1", "card(X1)=2"};
static const char* const FDEF[] = {"[\xCE\xB1\xE2\x88\x88\xE2\x84\xAC(X1)] \xCE\xB1", "[\xCE\xB1\xE2\x88\x88\xE2\x84\xAC(X1)] \xCE\xB1\\\xCE\xB1", "[\xCE\xB1\xE2\x88\x88\xE2\x84\xAC(X1)] X1\\\xCE\xB1", "[\xCE\xB1\xE2\x88\x88X1] \xCE\xB1"};
static const char* const NEWDEF[] = {"X1", "S1", "X1\\S1", "X1\xE2\x88\xAA", "D2", "\xE2\x84\xAC(X1)", ""};

static std::string valueOf(const RSModel& m, EntityUID uid) {
  const auto type = m.GetRS(uid).type;
  if (IsRSObject(type)) { const auto v = m.Values().SDataFor(uid); return v.has_value() ? v->ToString() : std::string("<none>"); }
  const auto s = m.Values().StatementFor(uid);
  return s.has_value() ? (*s ? "TRUE" : "FALSE") : "<none>";
}

// every basic element inside structure data (at any depth: element, tuple component, set member) still exists in X1
static bool onlyExisting(const object::StructuredData& d, const TextInterpretation& text) {
  if (d.IsElement()) return text.HasInterpretantFor(d.E().Value());
  if (d.IsTuple()) { for (rslang::Index i = 1; i <= d.T().Arity(); ++i) if (!onlyExisting(d.T().Component(i), text)) return false; return true; }
  for (const auto& e : d.B()) if (!onlyExisting(e, text)) return false;
  return true;
}

extern "C" void harness_main() {
  RSModel m;
  const auto x1 = m.Emplace(CstType::base);
  // S1 is created first, or inserted as a copied record AFTER the definitions that mention it (forward references, e.g. an undo)
  const bool late = sym_bool("structure-inserted-late");
  EntityUID s1 = late ? EntityUID{0} : m.Emplace(CstType::structured, "\xE2\x84\xAC(X1)");
  const auto f1 = m.Emplace(CstType::function, FDEF[0]);
#ifdef FIXED_TEMPLATES
  const auto d1 = m.Emplace(CstType::term, T1[3]);
  const auto d2 = m.Emplace(CstType::term, T2[1]);
  const auto a1 = m.Emplace(CstType::axiom, PA[2]);
#else
  const auto d1 = m.Emplace(CstType::term, T1[pick(4, "t1")]);
  const auto d2 = m.Emplace(CstType::term, T2[pick(4, "t2")]);
  const auto a1 = m.Emplace(CstType::axiom, PA[pick(4, "p")]);
#endif
  m.Values().AddBasicElement(x1, "a");
  m.Values().AddBasicElement(x1, "b");
  // structures that are not sets: an element of X1 and a pair over X1 (pruned as a whole when a component disappears); in the
  // late variant they are left out so that nothing rebuilds the dependency graph between the late insertion and the edits
  EntityUID s2 = 0, s3 = 0;
  if (!late) { s2 = m.Emplace(CstType::structured, "X1"); s3 = m.Emplace(CstType::structured, "X1\xC3\x97X1"); }
  else { ConceptRecord r; r.uid = 9001; r.alias = "S1"; r.type = CstType::structured; r.rs = "\xE2\x84\xAC(X1)"; s1 = m.InsertCopy(r); }
  m.Values().SetStructureData(s1, Factory::SetV({1}));
  if (!late) { m.Values().SetStructureData(s2, Factory::Val(2)); m.Values().SetStructureData(s3, Factory::Tuple({Factory::Val(1), Factory::Val(2)})); }
  m.Calculations().RecalculateAll();
  std::vector<EntityUID> all{x1, s1, d1, d2, a1, f1};
  const std::vector<EntityUID> structures{s1, s2, s3};
  static const char* const OPNAME[] = {"AddBasicElement", "SetBasicText", "SetStructureData", "ResetDataFor", "SetExpressionFor", "Erase", "Emplace", "Calculate", "RecalculateAll"};
  std::string history;
  for (int step = 0; step < K; ++step) {
    const int op = pick(9, "op");
    history += std::string(step ? "," : "") + OPNAME[op];
    switch (op) {
    case 0: m.Values().AddBasicElement(x1, "c"); break;
    case 1: {   // SetBasicText: same size with different keys / smaller / larger / identical
      TextInterpretation t;
      switch (pick(4, "text")) {
      case 0: t.SetInterpretantFor(1, "a"); t.SetInterpretantFor(3, "z"); break;    // same size, key 2 replaced by 3
      case 1: t.SetInterpretantFor(2, "b"); break;
      case 2: t.SetInterpretantFor(1, "a"); t.SetInterpretantFor(2, "b"); t.SetInterpretantFor(3, "c"); break;
      default: t.SetInterpretantFor(1, "a"); t.SetInterpretantFor(2, "b"); break;
      }
      m.Values().SetBasicText(x1, t);
      break;
    }
    case 2: m.Values().SetStructureData(s1, pick(2, "sdata") ? Factory::SetV({2}) : Factory::SetV({1, 2})); break;
    case 3: m.Values().ResetDataFor(all[(size_t)pick(6, "reset")]); break;
    case 4: {
      const int t = pick(4, "target");
      if (t == 3) m.SetExpressionFor(f1, FDEF[pick(4, "new-function")]);     // editing a callable: its callers must be invalidated too
      else m.SetExpressionFor(all[(size_t)(2 + t)], NEWDEF[pick(7, "newdef")]);
      break;
    }
    case 5: { const auto t = all[(size_t)pick(6, "erase")]; if (m.Contains(t)) m.Erase(t); break; }
    case 6: all.push_back(m.Emplace(CstType::term, NEWDEF[pick(7, "emplace-def")])); break;
    case 7: { const auto t = all[(size_t)pick(6, "calc")]; if (m.Contains(t)) m.Calculations().Calculate(t); break; }
    default: m.Calculations().RecalculateAll(); break;
    }
  }
  // ---- oracle: a model rebuilt from the current records, current base data and current structure data,
  // with everything recalculated (JSON is deliberately not used here: its fidelity is C10's subject)
  RSModel fresh;
  for (const auto uid : m.List()) fresh.Load(m.Core().AsRecord(uid));
  fresh.UpdateState();
  for (const auto uid : m.List()) {
    const auto type = m.GetRS(uid).type;
    if (IsBaseSet(type)) { if (const auto* t = m.Values().TextFor(uid); t != nullptr) fresh.Values().LoadData(uid, *t); }
    else if (type == CstType::structured) { if (const auto d = m.Values().SDataFor(uid); d.has_value()) fresh.Values().LoadData(uid, *d); }
  }
  fresh.Calculations().RecalculateAll();
  for (const auto uid : all) {
    if (!m.Contains(uid)) continue;
    const auto type = m.GetRS(uid).type;
    const auto status = m.Calculations()(uid);
    if (IsCalculable(type) && (status == EvalStatus::HAS_DATA || status == EvalStatus::EMPTY || status == EvalStatus::AXIOM_FAIL)) {
      sym_assert(fresh.Contains(uid), "reloaded-has-constituent");
      if (fresh.Contains(uid)) sym_assert(valueOf(m, uid) == valueOf(fresh, uid), ("shown-value-is-current[after " + history + "]").c_str());
      sym_reach("value-shown");
    }
  }
  if (m.Contains(x1))
    for (const auto uid : structures) {
      if (!m.Contains(uid) || m.GetRS(uid).type != CstType::structured) continue;
      const auto data = m.Values().SDataFor(uid);
      const auto* text = m.Values().TextFor(x1);
      if (data.has_value() && text != nullptr) sym_assert(onlyExisting(*data, *text), "structure-data-only-existing-elements");
    }
  sym_reach("compared");
#ifdef WITNESS
  sym_assert(false, "witness");
#endif
}
