// C19: operation schema (OSS).  Environment stub: the repo's own core/test/utils/FakeSourceManager.hpp.
//  PART 1 (structure): histories of K steps from {InsertBase, InsertOperation(p,q), Erase(p),
//          ConnectSource(p), SetPictAlias} with symbolic pictogram arguments (also foreign ids, p == q):
//          every operation pictogram has two distinct existing parents, the parent relation is acyclic,
//          every pictogram has exactly one grid cell and one source handle, only leaves can be erased,
//          all views list the same pictograms.
//  PART 2 (freshness): topologies {single operation, chain, diamond} with small operand schemas;
//          histories of K steps from {edit an operand's formal content and announce it, edit only a
//          text and announce it, Execute(pid), ExecuteAll, user addition to a result}: right after a
//          successful Execute the result equals the synthesis of the parents' CURRENT schemas plus the
//          user's additions; after an announced formal change every operation with a stored result that
//          has the changed pictogram as a parent is not reported done.
#include "sym.h"
#include "FakeSourceManager.hpp"
#include "ccl/oss/OSSchema.h"
#include "ccl/ops/RSOperations.h"
#include "ccl/api/RSFormJA.h"
#include <set>
#include "ccl/tools/JSON.h"
#include <map>
#ifndef PART
#define PART 1
#endif
#ifndef K
#define K 3
#endif
using namespace ccl;
using oss::OSSchema; using oss::PictID; using semantic::RSForm; using semantic::CstType;
static int pick(int n, const char* name) { return sym_concretize_i32(sym_range(0, n - 1, name)); }
static FakeSourceManager& manager() { return dynamic_cast<FakeSourceManager&>(Environment::Sources()); }

static void checkStructure(const OSSchema& oss) {
  std::set<PictID> all;
  std::set<std::pair<int, int>> cells;
  for (const auto& pict : oss) {
    sym_assert(all.insert(pict.uid).second, "pictogram-listed-once");
    sym_assert(oss.Contains(pict.uid), "listed-pictogram-exists");
    const auto pos = oss.Grid()(pict.uid);
    sym_assert(pos.has_value(), "pictogram-has-grid-cell");
    if (pos.has_value()) {
      sym_assert(cells.insert({pos->row, pos->column}).second, "grid-cell-holds-one-pictogram");
      const auto back = oss.Grid()(*pos);
      sym_assert(back.has_value() && *back == pict.uid, "grid-cell-maps-back");
    }
    sym_assert(oss.Src()(pict.uid) != nullptr, "pictogram-has-source-handle");
  }
  sym_assert(all.size() == oss.size(), "size-matches-iteration");
  for (const auto pid : all) {
    const auto parents = oss.Graph().ParentsOf(pid);
    sym_assert(parents.empty() || parents.size() == 2, "operation-has-two-parents-or-none");
    if (parents.size() == 2) {
      sym_assert(parents[0] != parents[1], "parents-distinct");
      sym_assert(all.count(parents[0]) && all.count(parents[1]), "parents-exist");
      sym_assert(oss.Ops().HasOperation(pid) || oss.Ops()(pid) == nullptr, "operation-handle-consistent");
    }
    for (const auto child : oss.Graph().ChildrenOf(pid)) {
      sym_assert(all.count(child) == 1, "children-exist");
      const auto ps = oss.Graph().ParentsOf(child);
      sym_assert(ps.size() == 2 && (ps[0] == pid || ps[1] == pid), "child-lists-parent");
    }
  }
  // acyclic: the execute order lists every operation after its parents
  const auto order = oss.Graph().ExecuteOrder();
  std::set<PictID> done;
  for (const auto pid : all) if (oss.Graph().ParentsOf(pid).empty()) done.insert(pid);
  for (const auto pid : order) {
    const auto ps = oss.Graph().ParentsOf(pid);
    for (const auto p : ps) sym_assert(done.count(p) == 1, "execute-order-parents-first");
    done.insert(pid);
  }
  sym_assert(done.size() == all.size(), "parent-relation-acyclic");
}

// the parent relation equals the reference model (parents as a set; children are its inverse)
static void checkParents(const OSSchema& oss, const std::map<PictID, std::set<PictID>>& ref) {
  for (const auto& pict : oss) {
    const auto ps = oss.Graph().ParentsOf(pict.uid);
    const std::set<PictID> got(ps.begin(), ps.end());
    const auto it = ref.find(pict.uid);
    sym_assert(got == (it == ref.end() ? std::set<PictID>{} : it->second), "parents-are-the-stated-ones");
    std::set<PictID> wantChildren;
    for (const auto& [child, parents] : ref) if (parents.count(pict.uid)) wantChildren.insert(child);
    const auto cs = oss.Graph().ChildrenOf(pict.uid);
    sym_assert(std::set<PictID>(cs.begin(), cs.end()) == wantChildren, "children-are-the-inverse-of-parents");
  }
}

extern "C" void harness_main() {
  Environment::Instance().SetSourceManager(std::make_unique<FakeSourceManager>());
  {
  OSSchema oss;
#if PART == 1
  std::vector<PictID> ids;     // every id ever issued (erased ones stay as "foreign" arguments)
  std::map<PictID, std::set<PictID>> parentsRef;     // reference model of the parent relation
  auto arg = [&](const char* name) -> PictID {
    const int k = pick((int)ids.size() + 1, name);
    return k < (int)ids.size() ? ids[(size_t)k] : PictID{4242};
  };
  for (int step = 0; step < K; ++step) {
    switch (pick(5, "op")) {
    case 0: ids.push_back(oss.InsertBase()->uid); break;
    case 1: {
      const PictID p = arg("parent1"), q = arg("parent2");
      const auto* res = oss.InsertOperation(p, q);
      const bool valid = oss.Contains(p) && oss.Contains(q) && p != q;
      if (!valid) sym_assert(res == nullptr, "invalid-operation-refused");
      if (res != nullptr) { ids.push_back(res->uid); parentsRef[res->uid] = {p, q}; sym_reach("operation-inserted"); }
      break;
    }
    case 2: {
      const PictID p = arg("erase");
      const bool leaf = oss.Contains(p) && oss.Graph().ChildrenOf(p).empty();
      const auto before = oss.size();
      const bool ok = oss.Erase(p);
      sym_assert(ok == leaf, "only-leaves-can-be-erased");
      sym_assert(oss.size() == before - (ok ? 1 : 0), "erase-size");
      if (ok) { sym_assert(!oss.Contains(p) && oss.Src()(p) == nullptr && !oss.Grid()(p).has_value() && oss.Ops()(p) == nullptr, "erased-gone-from-all-tables"); parentsRef.erase(p); sym_reach("erased"); }
      break;
    }
    case 3: { const PictID p = arg("connect"); (void)oss.Src().ConnectPict2Src(p, manager().CreateNewRS()); break; }
    default: { const PictID p = arg("alias"); oss.SetPictAlias(p, pick(2, "alias-text") ? "a" : "b"); break; }
    }
    checkStructure(oss);
    checkParents(oss, parentsRef);
  }
  sym_reach("structure");
#elif PART == 3
  // ---- a document whose items and connections are listed in an arbitrary order (any order is a valid document), loaded and
  // then edited: the parent relation must be the one the document states, before and after erasures
  std::map<PictID, std::set<PictID>> parentsRef;
  std::vector<PictID> ids;
  nlohmann::ordered_json doc;
  {
    OSSchema orig;
    const PictID b1 = orig.InsertBase()->uid, b2 = orig.InsertBase()->uid;
    const PictID o3 = orig.InsertOperation(b1, b2)->uid;
    PictID o4 = 0;
    switch (pick(3, "second-operation")) { case 0: o4 = orig.InsertOperation(b1, b2)->uid; parentsRef[o4] = {b1, b2}; break; case 1: o4 = orig.InsertOperation(b1, o3)->uid; parentsRef[o4] = {b1, o3}; break; default: o4 = orig.InsertOperation(o3, b2)->uid; parentsRef[o4] = {o3, b2}; break; }
    parentsRef[o3] = {b1, b2};
    ids = {b1, b2, o3, o4};
    if (sym_bool("third-operation")) { const PictID o5 = orig.InsertOperation(o3, o4)->uid; parentsRef[o5] = {o3, o4}; ids.push_back(o5); }
    doc = orig;
  }
  for (const char* key : {"connections"
#ifdef PERMUTE_ITEMS
    , "items"
#endif
    }) {          // symbolic permutation (selection sort by symbolic picks)
    auto& list = doc[key];
    const size_t n = list.size();
    for (size_t i = 0; i + 1 < n; ++i) {
      const size_t j = i + (size_t)pick((int)(n - i), key);
      if (j != i) std::swap(list[i], list[j]);
    }
  }
  // precondition of the graph facet: rows are created at the first mention of a pictogram in the connection list and the
  // execution order is the row order, so an operation must be first mentioned after the operations it depends on (the
  // library's own documents satisfy this; base pictograms may appear anywhere)
  {
    std::vector<PictID> mention;
    auto first = [&](PictID x) { for (size_t i = 0; i < mention.size(); ++i) if (mention[i] == x) return i; return mention.size(); };
    for (const auto& c : doc["connections"]) for (int side = 0; side < 2; ++side) { const PictID x = c[(size_t)side].get<PictID>(); if (first(x) == mention.size()) mention.push_back(x); }
    for (const auto& [child, parents] : parentsRef) for (const auto parent : parents) if (parentsRef.count(parent) && first(parent) > first(child)) sym_end_path();
  }
  doc.get_to(oss);
  checkStructure(oss);
  checkParents(oss, parentsRef);
  for (int step = 0; step < K; ++step) {
    const int k = pick((int)ids.size(), "erase");
    const PictID p = ids[(size_t)k];
    const bool leaf = oss.Contains(p) && oss.Graph().ChildrenOf(p).empty();
    const bool ok = oss.Erase(p);
    sym_assert(ok == leaf, "only-leaves-can-be-erased");
    if (ok) { parentsRef.erase(p); sym_reach("erased"); }
    checkStructure(oss);
    checkParents(oss, parentsRef);
  }
  sym_reach("loaded");
#else
  // ---- topology
  const int topology = pick(3, "topology");       // 0 single, 1 chain, 2 diamond
  const PictID b1 = oss.InsertBase()->uid, b2 = oss.InsertBase()->uid;
  oss.Src().ConnectPict2Src(b1, manager().CreateNewRS());
  oss.Src().ConnectPict2Src(b2, manager().CreateNewRS());
  auto schemaOf = [&](PictID pid) -> RSForm& { return manager().DummyCast(*oss.Src()(pid)->src).schema; };
  auto sourceOf = [&](PictID pid) -> FakeTRS& { return manager().DummyCast(*oss.Src()(pid)->src); };
  schemaOf(b1).Emplace(CstType::base); schemaOf(b1).Emplace(CstType::term, "X1\\X1");
  schemaOf(b2).Emplace(CstType::base); if (pick(2, "b2-term")) schemaOf(b2).Emplace(CstType::term, "\xE2\x84\xAC(X1)");
  sourceOf(b1).TriggerSave(); sourceOf(b2).TriggerSave();
  std::vector<PictID> opsList;
  const PictID o1 = oss.InsertOperation(b1, b2)->uid; opsList.push_back(o1);
  if (topology == 1) opsList.push_back(oss.InsertOperation(o1, b2)->uid);
  if (topology == 2) { const PictID o2 = oss.InsertOperation(b2, b1)->uid; opsList.push_back(o2); opsList.push_back(oss.InsertOperation(o1, o2)->uid); }
  for (const auto pid : opsList) oss.Ops().InitFor(pid, ops::Type::rsMerge, nullptr);
  std::vector<PictID> everyone{b1, b2}; everyone.insert(everyone.end(), opsList.begin(), opsList.end());
  std::set<PictID> hasResult;
  std::set<PictID> unsaved;                                // results with a user edit that has not been saved yet
  std::map<PictID, std::string> lastContent;             // formal content of a stored result when it was last compared
  auto contentOf = [&](PictID pid) {
    std::string o;
    const auto* d = dynamic_cast<const RSForm*>(oss.Src().DataFor(pid));
    if (d != nullptr) for (const auto u : d->List()) o += d->GetRS(u).alias + "=" + d->GetRS(u).definition + ";";
    return o;
  };
  std::map<PictID, std::map<PictID, std::string>> seenParent;   // formal content of each parent when the child's stored result was computed
  std::vector<std::pair<PictID, int>> userAdditions;     // number of constituents the user added to a result
  for (int step = 0; step < K; ++step) {
    const int op = pick(6, "op");
    switch (op) {
    case 5: {   // the result document of an operation is closed (its stored result stays)
      const PictID pid = opsList[(size_t)pick((int)opsList.size(), "close")];
      if (!hasResult.count(pid) || unsaved.count(pid) || oss.Src()(pid)->src == nullptr) break;
      sourceOf(pid).TriggerClose();
      sym_reach("result-closed");
      break;
    }
    case 0: {   // announced formal change of a base operand
      const PictID p = pick(2, "edited") ? b2 : b1;
      schemaOf(p).Emplace(CstType::term, "X1\xE2\x88\xAAX1");
      sourceOf(p).TriggerSave();
      for (const auto pid : opsList) {
        const auto ps = oss.Graph().ParentsOf(pid);
        if (hasResult.count(pid) && (ps[0] == p || ps[1] == p))
          sym_assert(oss.Ops().StatusOf(pid) != ops::Status::done, "stale-result-not-reported-done");
      }
      sym_reach("formal-change");
      break;
    }
    case 1: {   // text-only change
      const PictID p = pick(2, "edited") ? b2 : b1;
      auto& s = schemaOf(p);
      s.SetTermFor(*s.List().begin(), pick(2, "term-text") ? "t1" : "t2");
      sourceOf(p).TriggerSave();
      break;
    }
    case 2: case 3: {
      PictID pid = opsList[(size_t)pick((int)opsList.size(), "execute")];
      if (op == 3) { oss.Ops().ExecuteAll(); }
      const bool ok = op == 3 ? true : oss.Ops().Execute(pid);
      const auto check = [&](PictID q) {
        if (oss.Ops().StatusOf(q) != ops::Status::done) return;
        hasResult.insert(q);
        const auto ps = oss.Graph().ParentsOf(q);
        for (const auto parent : ps) seenParent[q][parent] = contentOf(parent);
        const auto* d1 = dynamic_cast<const RSForm*>(oss.Src().DataFor(ps[0]));
        const auto* d2 = dynamic_cast<const RSForm*>(oss.Src().DataFor(ps[1]));
        const auto* dr = dynamic_cast<const RSForm*>(oss.Src().DataFor(q));
        sym_assert(d1 != nullptr && d2 != nullptr && dr != nullptr, "data-available-after-execution");
        if (d1 == nullptr || d2 == nullptr || dr == nullptr) return;
        ops::BinarySynthes expectOp(*d1, *d2, ops::EquationOptions{});
        auto expect = expectOp.Execute();
        int extra = 0; for (const auto& ua : userAdditions) if (ua.first == q) extra += ua.second;
        sym_assert(expect != nullptr && dr->Core().size() == expect->Core().size() + (size_t)extra, "result-is-synthesis-of-current-parents-plus-additions");
        if (expect != nullptr && extra == 0) {
          std::multiset<std::string> got, want;
          for (const auto u : dr->List()) got.insert(dr->GetRS(u).alias + "=" + dr->GetRS(u).definition);
          for (const auto u : expect->List()) want.insert(expect->GetRS(u).alias + "=" + expect->GetRS(u).definition);
          sym_assert(got == want, "result-content-equals-synthesis");
        }
      };
      if (op == 2 && ok) {
        check(pid); sym_reach("executed");
        // an unsaved user edit of pid's own result is announced by the source manager while pid is re-executed
        // (the edit is carried over into the new result): every operation below pid that holds a result must then
        // stop reporting done.  (A change of pid's result caused only by re-synthesis is written under
        // do-not-disturb and is NOT an announced change: nothing is asserted for it.)
        const std::string now = contentOf(pid);
        if (unsaved.count(pid))
          for (const auto q : opsList) {
            const auto ps = oss.Graph().ParentsOf(q);
            // (a child computed AFTER the user's edit already saw that content: for it nothing has changed)
            if (hasResult.count(q) && (ps[0] == pid || ps[1] == pid) && seenParent[q][pid] != now) sym_assert(oss.Ops().StatusOf(q) != ops::Status::done, "child-of-operation-with-announced-user-edit-not-done");
          }
        unsaved.erase(pid);
        lastContent[pid] = now;
        // executing pid re-checks its children, which synchronises (saves) the sources of their OTHER parents: an unsaved
        // user edit of such a co-parent is thereby saved and announced - a child computed without it must stop reporting done
        std::set<PictID> savedNow;
        for (const auto q : opsList) {
          const auto ps = oss.Graph().ParentsOf(q);
          if (ps[0] != pid && ps[1] != pid) continue;
          const PictID other = ps[0] == pid ? ps[1] : ps[0];
          if (!unsaved.count(other)) continue;
          if (hasResult.count(q) && seenParent[q][other] != contentOf(other))
            sym_assert(oss.Ops().StatusOf(q) != ops::Status::done, "child-not-done-after-co-parent-edit-was-saved[co-parent-edit-saved-during-sibling-execution]");
          savedNow.insert(other);
        }
        for (const auto x : savedNow) unsaved.erase(x);
      }
      if (op == 3) { for (const auto q : opsList) { check(q); if (hasResult.count(q)) lastContent[q] = contentOf(q); } unsaved.clear(); sym_reach("executed-all"); }
      break;
    }
    case 4: default: {   // the user adds a constituent of their own to an existing result
      const PictID pid = opsList[(size_t)pick((int)opsList.size(), "add-to")];
      if (!hasResult.count(pid) || oss.Src()(pid)->src == nullptr) break;
      schemaOf(pid).Emplace(CstType::term, "X1");
      if (pick(2, "save-addition")) sourceOf(pid).TriggerSave();     // the edit may also stay unsaved until the next execution
      else unsaved.insert(pid);
      userAdditions.emplace_back(pid, 1);
      sym_reach("user-addition");
      break;
    }
    }
    checkStructure(oss);
  }
  sym_reach("freshness");
#endif
  }
  Environment::Instance().SetSourceManager(std::make_unique<SourceManager>());
#ifdef WITNESS
  sym_assert(false, "witness");
#endif
}
