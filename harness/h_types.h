// shared helpers: the fixed list of typifications used by C15/C16 harnesses
#pragma once
#include "ccl/rslang/Typification.h"
#include "ccl/rslang/StructuredData.h"
namespace hv {
using ccl::rslang::Typification;
using ccl::object::StructuredData;
inline Typification X() { return Typification("X1"); }
inline Typification B(const Typification& t) { return t.Bool(); }
inline Typification T2(const Typification& a, const Typification& b) { return Typification::Tuple({a, b}); }
inline Typification T3(const Typification& a, const Typification& b, const Typification& c) { return Typification::Tuple({a, b, c}); }
static const int NTYPES = 18;
inline Typification TypeNo(int i) {
  switch (i) {
  case 0: return X();
  case 1: return B(X());
  case 2: return B(B(X()));
  case 3: return T2(X(), X());
  case 4: return B(T2(X(), X()));
  case 5: return T2(X(), B(X()));
  case 6: return T2(B(X()), X());
  case 7: return T2(B(X()), B(X()));
  case 8: return B(T2(X(), B(X())));
  case 9: return B(T2(B(X()), X()));
  case 10: return B(B(T2(X(), X())));
  case 11: return T2(T2(X(), X()), B(X()));
  case 12: return B(T3(X(), X(), Typification::Integer()));
  case 13: return B(B(B(X())));
  // a nested collection that is NOT the last component of a tuple (what follows an empty nested set must still be found)
  case 14: return T2(B(B(X())), X());
  case 15: return B(T2(B(B(X())), X()));
  case 16: return T2(B(T2(X(), B(X()))), X());
  default: return T3(B(X()), B(B(X())), X());
  }
}
// full recursive structure check through the public API only
inline bool FullCompat(const StructuredData& v, const Typification& t) {
  switch (t.Structure()) {
  case ccl::rslang::StructureType::basic: return v.IsElement();
  case ccl::rslang::StructureType::tuple: {
    if (!v.IsTuple() || v.T().Arity() != t.T().Arity()) return false;
    for (ccl::rslang::Index i = Typification::PR_START; i < Typification::PR_START + t.T().Arity(); ++i)
      if (!FullCompat(v.T().Component(i), t.T().Component(i))) return false;
    return true;
  }
  case ccl::rslang::StructureType::collection: {
    if (!v.IsCollection()) return false;
    int n = 0;
    for (const auto& e : v.B()) { if (!FullCompat(e, t.B().Base())) return false; ++n; }
    return n == v.B().Cardinality();
  }
  }
  return false;
}
}  // namespace hv
