// C17: text references.
//  PART 1 (bytes): any byte string of at most N bytes: ExtractAll / Resolve / OutputRefs / Referals
//          never fault; found ranges are ordered, disjoint, inside the text; for well-formed UTF-8
//          every range delimits "@{...}", everything outside the ranges is preserved by Resolve and
//          OutputRefs restores the original up to the canonical spelling of each reference.
//  PART 2 (one reference with symbolic holes): pre @{ <hole> | <form> } post: found exactly when the
//          reference reader (refs/ref_refscan.h) says it is well formed; kind, entity, offset agree.
//  PART 3 (two references, adjacency, '@' before a reference, edits): the references found are
//          exactly the well-formed ones in order; Resolve/OutputRefs/Referals/Insert/EraseIn agree
//          with a re-resolution.
#include "sym.h"
#include "ccl/lang/RefsManager.h"
#include "ccl/lang/ManagedText.h"
#include "ccl/lang/LexicalTerm.h"
#include "ccl/lang/EntityTermContext.hpp"
#include "ref_refscan.h"
#include "ref_utf8.h"
#include <map>
#ifndef N
#define N 3
#endif
#ifndef HL
#define HL 2
#endif
#ifndef PART
#define PART 1
#endif
using namespace ccl;
using namespace ccl::lang;
struct Ctx final : EntityTermContext {
  // the term text mixes 1- and 2-byte code points (Cyrillic "е"): a byte/code-point confusion in the resolved ranges is invisible with ASCII terms
  LexicalTerm x1{"t\xD0\xB5rm", "t\xD0\xB5rm"};
  LexicalTerm x3{"", ""};
  const LexicalTerm* At(const std::string& e) const override { return e == "X1" ? &x1 : e == "X3" ? &x3 : nullptr; }
  bool Contains(const std::string& e) const override { return e == "X1" || e == "X3"; }
};
static int pickN(int n, const char* name) { return sym_concretize_i32(sym_range(0, n - 1, name)); }
static int cps(const std::string& s) { return SizeInCodePoints(s); }

// generic laws for any text; returns the original ranges
static void checkLaws(const std::string& text, const Ctx& ctx, bool wellFormedUtf8) {
  const auto refs = Reference::ExtractAll(text);
  const int total = wellFormedUtf8 ? cps(text) : (int)text.size();
  StrPos last = 0;
  for (const auto& r : refs) {
    sym_assert(r.IsValid(), "extracted-ref-is-valid");
    sym_assert(r.position.start >= last && r.position.start < r.position.finish, "ranges-ordered-disjoint");
    sym_assert(r.position.finish <= total, "range-inside-text");
    last = r.position.finish;
    if (wellFormedUtf8) {
      const auto piece = Substr(text, r.position);
      sym_assert(piece.size() >= 3 && piece[0] == '@' && piece[1] == '{' && piece.back() == '}', "range-delimits-reference");
    }
  }
  RefsManager mgr(ctx);
  const std::string resolved = mgr.Resolve(text);
  sym_assert(mgr.get().size() == refs.size(), "resolve-finds-same-references");
  if (wellFormedUtf8 && mgr.get().size() == refs.size()) {
    // resolved = original with each range replaced by the resolution; recorded ranges delimit the replacements
    std::string expect; StrPos cur = 0; bool rangesOk = true;
    for (size_t i = 0; i < refs.size(); ++i) {
      expect += Substr(text, StrRange{cur, refs[i].position.start});
      const StrPos at = cps(expect);
      expect += mgr.get()[i].resolvedText;
      if (mgr.get()[i].position.start != at || mgr.get()[i].position.finish != cps(expect)) rangesOk = false;
      cur = refs[i].position.finish;
    }
    if (cur < total) expect += Substr(text, StrRange{cur, total});
    sym_assert(resolved == expect, "resolve-replaces-only-references");
    sym_assert(rangesOk, "resolved-ranges-delimit-replacements");
    // writing the references back
    std::string canon; cur = 0;
    for (const auto& r : refs) { canon += Substr(text, StrRange{cur, r.position.start}); canon += r.ToString(); cur = r.position.finish; }
    if (cur < total) canon += Substr(text, StrRange{cur, total});
    sym_assert(mgr.OutputRefs(resolved) == canon, "outputrefs-restores-original");
    // mentioned entities
    ManagedText mt(text);
    const auto referals = mt.Referals();
    size_t distinct = 0;
    for (size_t i = 0; i < refs.size(); ++i) {
      if (!refs[i].IsEntity()) continue;
      sym_assert(referals.count(std::string(refs[i].GetEntity())) == 1, "referals-contain-entity");
      bool seen = false;
      for (size_t j = 0; j < i; ++j) if (refs[j].IsEntity() && refs[j].GetEntity() == refs[i].GetEntity()) seen = true;
      if (!seen) ++distinct;
    }
    sym_assert(referals.size() == distinct, "referals-only-entities");
  } else {
    (void)mgr.OutputRefs(resolved);
    ManagedText mt(text); (void)mt.Referals();
  }
}

extern "C" void harness_main() {
  Ctx ctx;
#if PART == 1
  char buf[N + 1];
  sym_bytes(buf, N, "text"); buf[N] = 0;
  int n = sym_concretize_i32(sym_range(0, N, "len"));
  for (int i = 0; i < n; ++i) sym_assume(buf[i] != 0);
  std::string text(buf, (size_t)n);
  bool wf = ref::DecodeUtf8((const unsigned char*)buf, n).ok;
  checkLaws(text, ctx, wf);
  (void)Reference::Parse(text);
  sym_reach(wf ? "wellformed" : "malformed-utf8");
#elif PART == 2
  static const char* const PRE[] = {"", "a", "\xD0\x96", "@", "a@", "{", "}"};
  static const char* const POST[] = {"", "b", "\xE2\x88\x85", "}", "@{"};
  static const char* const FORM[] = {"nomn", "", "sing,nomn", " nomn ", "xxxx", "nomn|sing", "nomn|1", "nomn|", "1", "txt", "nomn|sing|2|x", "99999999999", "t|"};
  static const char* const HEAD[] = {"", "X1", "X2", "-1", "1", "0", "70000", "-70000", "99999999999", "-", "1X", "X1|X1"};
  std::string pre = PRE[pickN(7, "pre")], post = POST[pickN(5, "post")], form = FORM[pickN(13, "form")];
  std::string head;
  if (sym_bool("head-from-menu")) head = HEAD[pickN(12, "head")];
  else {
    char hole[HL];
    sym_bytes(hole, HL, "hole");
    int hl = sym_concretize_i32(sym_range(0, HL, "holelen"));
    for (int i = 0; i < hl; ++i) { sym_assume(hole[i] != 0 && hole[i] != '{' && hole[i] != '}'); sym_assume((unsigned char)hole[i] < 0x80); head += hole[i]; }
  }
  const std::string inner = head + "|" + form;
  const std::string refText = "@{" + inner + "}";
  // the surrounding pieces must not change the bracket structure: only the cases where the
  // intended reading is unambiguous are asserted
  const bool unambiguous = pre != "{" && pre != "}" && post != "}" && post != "@{";
  const std::string text = pre + refText + post;
  const ref::RefInfo info = ref::ReadReference(inner);
  const Reference parsed = Reference::Parse(refText);
  sym_assert(parsed.IsValid() == (info.kind != ref::REF_INVALID), "parse-validity");
  if (parsed.IsValid() && info.kind == ref::REF_ENTITY) { sym_assert(parsed.IsEntity() && parsed.GetEntity() == info.entity, "parse-entity"); sym_reach("entity"); }
  if (parsed.IsValid() && info.kind == ref::REF_COLLAB) { sym_assert(parsed.IsCollaboration() && parsed.GetOffset() == info.offset && parsed.GetNominal() == info.nominal, "parse-collaboration"); sym_reach("collaboration"); }
  if (parsed.IsValid()) sym_assert(Reference::Parse(parsed.ToString()).ToString() == parsed.ToString(), "tostring-is-canonical");
  const auto found = Reference::ExtractAll(text);
  if (unambiguous) {
    sym_assert(found.size() == (info.kind != ref::REF_INVALID ? 1u : 0u), "extract-exactly-the-wellformed");
    if (found.size() == 1) sym_assert(found[0].position.start == cps(pre) && found[0].position.finish == cps(pre) + cps(refText), "extract-range");
  }
  checkLaws(text, ctx, true);
  if (info.kind == ref::REF_INVALID) sym_reach("invalid");
#elif PART == 5
  // a term context that CHANGES between resolutions: X2's term mentions X1, X3's term mentions X2; texts referring to them are
  // resolved, then a term is edited and its dependants refreshed (what Thesaurus does), then the same texts are resolved again.
  // Oracle: a fresh context built from the final raw term texts.
  struct DynCtx final : EntityTermContext {
    std::map<std::string, LexicalTerm> terms;
    const LexicalTerm* At(const std::string& e) const override { const auto it = terms.find(e); return it == terms.end() ? nullptr : &it->second; }
    bool Contains(const std::string& e) const override { return terms.count(e) != 0; }
  };
  static const char* const WORDS[] = {"Alpha", "Gamma", "@{X9|nomn}"};
  static const char* const FORMS[] = {"nomn", "sing,gent", "plur,ablt"};
  DynCtx dyn;
  dyn.terms["X1"].SetText(WORDS[pickN(3, "x1-term")], dyn);
  dyn.terms["X2"].SetText("@{X1|sing,nomn} beta", dyn);
  dyn.terms["X3"].SetText(sym_bool("x3-mentions-x2") ? "pre @{X2|" + std::string(FORMS[pickN(3, "x3-form")]) + "}" : "plain", dyn);
  dyn.terms["X2"].SetForm(Morphology{"plur,ablt"}, "manual");
  const std::string text = "a @{X2|" + std::string(FORMS[pickN(3, "form1")]) + "} b @{X" + (sym_bool("second-is-x3") ? "3" : "2") + "|" + std::string(FORMS[pickN(3, "form2")]) + "} c";
  if (sym_bool("resolved-before")) { RefsManager warm(dyn); (void)warm.Resolve(text); (void)dyn.terms["X2"].GetNominalForm(); }
  // the edit and the refresh of the dependants, in dependency order
  switch (pickN(3, "edit")) {
  case 0: dyn.terms["X1"].SetText(WORDS[pickN(3, "x1-new-term")], dyn); break;
  case 1: dyn.terms["X1"].SetForm(Morphology{"sing,nomn"}, "manual-x1"); break;
  default: dyn.terms["X2"].SetText("@{X1|sing,nomn} delta", dyn); break;
  }
  dyn.terms["X2"].UpdateFrom(dyn);
  dyn.terms["X3"].UpdateFrom(dyn);
  RefsManager now(dyn);
  const std::string got = now.Resolve(text);
  DynCtx fresh;
  for (const char* e : {"X1", "X2", "X3"}) {
    fresh.terms[e].SetText(dyn.terms[e].Text().Raw(), fresh);
    for (const auto& [form, str] : dyn.terms[e].GetAllManual()) fresh.terms[e].SetForm(form, str);
  }
  for (const char* e : {"X1", "X2", "X3"}) fresh.terms[e].UpdateFrom(fresh);
  RefsManager ref(fresh);
  const std::string want = ref.Resolve(text);
  if (sym_is_replay() && got != want) { sym_note(("resolved : " + got).c_str()); sym_note(("fresh    : " + want).c_str()); }
  sym_assert(got == want, "resolution-follows-the-current-context");
  for (const char* e : {"X2", "X3"}) sym_assert(dyn.terms[e].Nominal() == fresh.terms[e].Nominal(), "refreshed-term-equals-fresh-term");
  sym_reach("context");
#elif PART == 4
  // every pair of documented grammeme tags (35 x 35, in either order, also twice the same): the canonical spelling written back is
  // "@{entity|tags in the documented order, each once}" - computed here from the documented table, not from the library's ToString
  static const char* const TAGS[] = {"NOUN", "NPRO", "INFN", "VERB", "ADJF", "ADJS", "PRTF", "PRTS", "ADVB", "GRND", "COMP", "PRED", "NUMR", "CONJ", "INTJ", "PRCL", "PREP", "PNCT",
    "pres", "past", "futr", "1per", "2per", "3per", "sing", "plur", "masc", "femn", "neut", "nomn", "gent", "datv", "ablt", "accs", "loct"};
  const int ti = pickN(35, "tag1"), tj = pickN(36, "tag2");       // tag2 == 35: a single tag
  const std::string given = std::string(TAGS[ti]) + (tj < 35 ? std::string(",") + TAGS[tj] : std::string());
  std::string canonTags = tj == 35 || tj == ti ? std::string(TAGS[ti]) : (ti < tj ? std::string(TAGS[ti]) + "," + TAGS[tj] : std::string(TAGS[tj]) + "," + TAGS[ti]);
  const std::string refText = "@{X1|" + given + "}", canonical = "@{X1|" + canonTags + "}";
  sym_assert(Morphology{given}.ToString() == canonTags, "morphology-tostring-names-the-same-tags");
  const Reference parsed = Reference::Parse(refText);
  sym_assert(parsed.IsValid() && parsed.IsEntity(), "tagged-reference-is-valid");
  if (parsed.IsValid()) sym_assert(parsed.ToString() == canonical, "reference-tostring-is-the-canonical-spelling");
  {
    const std::string text = "see " + refText + " here";
    RefsManager mgr(ctx);
    const std::string resolved = mgr.Resolve(text);
    sym_assert(mgr.OutputRefs(resolved) == "see " + canonical + " here", "outputrefs-restores-canonical-spelling");
    ManagedText mt(text);
    mt.TranslateRefs([](const std::string& e) -> std::optional<std::string> { if (e == "X1") return std::string("X7"); return std::nullopt; }, ctx);
    sym_assert(mt.Raw() == "see @{X7|" + canonTags + "} here", "rename-keeps-the-form");
  }
  checkLaws("see " + refText + " here", ctx, true);
  sym_reach("tags");
#else
  static const char* const PIECE[] = {"", "a", "\xD0\x96 ", "@", "a@", "\xE2\x88\x85"};
  static const char* const REFS[] = {"@{X1|nomn}", "@{X2|sing,nomn}", "@{-1|x}", "@{1|y}", "@{X3|gent}", "@{X1}", "@{|nomn}", "@{X1|nomn|}", "@{2|}", ""};
  const int nr = 10;
  std::string p0 = PIECE[pickN(4, "p0")], p1 = PIECE[pickN(6, "p1")], p2 = PIECE[pickN(2, "p2")];
  int i1 = pickN(nr, "r1"), i2 = pickN(nr, "r2");
  std::string r1 = REFS[i1], r2 = REFS[i2];
  const std::string text = p0 + r1 + p1 + r2 + p2;
  struct Exp { int start, finish; ref::RefInfo info; };
  std::vector<Exp> expect;
  auto consider = [&](const std::string& before, const std::string& r) {
    if (r.empty()) return;
    ref::RefInfo info = ref::ReadReference(r.substr(2, r.size() - 3));
    if (info.kind != ref::REF_INVALID) expect.push_back({cps(before), cps(before) + cps(r), info});
  };
  consider(p0, r1);
  consider(p0 + r1 + p1, r2);
  const auto found = Reference::ExtractAll(text);
  sym_assert(found.size() == expect.size(), "extract-exactly-the-wellformed");
  if (found.size() == expect.size())
    for (size_t i = 0; i < found.size(); ++i) {
      sym_assert(found[i].position.start == expect[i].start && found[i].position.finish == expect[i].finish, "extract-range");
      sym_assert(found[i].IsEntity() == (expect[i].info.kind == ref::REF_ENTITY), "extract-kind");
    }
  checkLaws(text, ctx, true);
  // edits on the resolved text: Insert then EraseIn keep the remaining ranges aligned (every position)
  {
    RefsManager probe(ctx);
    const int total = cps(probe.Resolve(text));
    for (int where = 0; where <= total; ++where) {
      RefsManager mgr(ctx);
      (void)mgr.Resolve(text);
      std::vector<StrRange> before; for (const auto& r : mgr.get()) before.push_back(r.position);
      const Reference* ins = mgr.Insert(Reference{EntityRef{"X1", Morphology{"nomn"}}}, where);
      bool inside = false;
      for (const auto& b : before) if (b.start <= where && where <= b.finish) inside = true;
      sym_assert((ins == nullptr) == inside, "insert-refused-iff-touching-a-reference");
      if (ins == nullptr) continue;
      const int len = cps(ins->resolvedText);
      sym_assert(mgr.get().size() == before.size() + 1, "insert-adds-one");
      size_t k = 0;
      for (const auto& r : mgr.get()) {
        if (&r == ins) { sym_assert(r.position.start == where && r.position.finish == where + len, "insert-range"); continue; }
        const StrRange& b = before[k++];
        const int shift = b.start >= where ? len : 0;
        sym_assert(r.position.start == b.start + shift && r.position.finish == b.finish + shift, "insert-keeps-other-ranges-aligned");
      }
      // erase exactly what was inserted: everything returns to the previous state
      auto er = mgr.EraseIn(StrRange{where, where + len});
      sym_assert(er.has_value(), "erase-inserted-accepted");
      sym_assert(mgr.get().size() == before.size(), "erase-removes-the-reference");
      if (mgr.get().size() == before.size())
        for (size_t i = 0; i < before.size(); ++i) sym_assert(mgr.get()[i].position == before[i], "erase-restores-ranges");
      sym_reach("insert-erase");
    }
  }
  sym_reach("template");
#endif
#ifdef WITNESS
  sym_assert(false, "witness");
#endif
}
