// C12: synthesis / merge / equation.
//  PART 1: two operand schemas built from templates with symbolic alias digits and kinds (shared and
//          disjoint base sets, overlapping aliases, optionally one ill-typed definition), an equation
//          table of at most 2 pairs with symbolic members (also foreign identifiers) and symbolic mode:
//          inadmissible table => nothing is produced and both operands are untouched; otherwise the
//          result has unique aliases, both translations are total and land in the result, equated
//          pairs share one image, no definition of the result mentions a name that does not resolve
//          (the operands have no dangling names), and - if both operands were fully correct and the
//          table equates like with like - every constituent of the result is VERIFIED and keeps its
//          typification up to the identification.  Also DeleteDuplicates inside one schema.
//  PART 3: repeated Equate calls on one schema object: each returned translation describes that call only.
//  PART 2: EntityTranslation algebra (SubstituteValues, SuperposeWith) against a relational reference.
#include "sym.h"
#include "ccl/ops/RSOperations.h"
#include "ccl/semantic/RSForm.h"
#include "ccl/api/RSFormJA.h"
#include "ccl/rslang/RSExpr.h"
#include <set>
#include <string>
#ifndef PART
#define PART 1
#endif
#ifndef MAXPAIRS
#define MAXPAIRS 1
#endif
#ifndef SECOND_TEMPLATES
#define SECOND_TEMPLATES 1
#endif
using namespace ccl;
using namespace ccl::semantic;
static int pick(int n, const char* name) { return sym_concretize_i32(sym_range(0, n - 1, name)); }

#if PART == 1
static const char* const DEFS1[] = {"X1\\X1", "\xE2\x84\xAC(X1)", "X1\xE2\x88\xAAX1"};
static const char* const DEFS2[] = {"D1\\X1", "D1\xE2\x88\xAAX1", "\xE2\x84\xAC(D1)", "X1\xE2\x88\xAA" "1"};   // last: ill-typed
static std::string json(const RSForm& f) { return api::RSFormJA::FromData(RSForm(f)).ToJSON(); }
static std::string typeOf(const RSForm& f, EntityUID u) {
  const auto* t = f.GetParse(u).Typification();
  return t == nullptr ? (f.GetParse(u).exprType.has_value() ? "LOGIC" : "-") : t->ToString();
}
static void buildOperand(RSForm& f, const char* who, std::vector<EntityUID>& ids, bool& correct) {
  ids.push_back(f.Emplace(CstType::base));                                   // X1
  if (pick(2, who)) ids.push_back(f.Emplace(CstType::base));                 // X2
  ids.push_back(f.Emplace(CstType::term, DEFS1[pick(3, "d1")]));             // D1
  const int d2 = pick(3, "d2");                                               // none / correct / ill-typed
  if (d2 == 1) ids.push_back(f.Emplace(CstType::term, DEFS2[pick(SECOND_TEMPLATES, "d2-template")]));
  if (d2 == 2) ids.push_back(f.Emplace(CstType::term, DEFS2[3]));            // D2
  correct = true;
  for (const auto u : ids) if (f.GetParse(u).status != ParsingStatus::VERIFIED) correct = false;
}
extern "C" void harness_main() {
  RSForm a;
  std::vector<EntityUID> ia, ib;
  bool ca = false, cb = false;
  buildOperand(a, "a-two-bases", ia, ca);
  // the second operand is built independently, or is an edited branch of the first (same identifiers and aliases)
  const bool branch = sym_bool("b-is-branch-of-a");
  RSForm b = branch ? RSForm(a) : RSForm();
  if (!branch) buildOperand(b, "b-two-bases", ib, cb);
  else {
    ib = ia;
    b.SetExpressionFor(ib.back(), DEFS1[pick(3, "branch-definition")]);
    if (sym_bool("branch-adds")) ib.push_back(b.Emplace(CstType::term, DEFS2[pick(SECOND_TEMPLATES, "branch-template")]));
    cb = true;
    for (const auto u : ib) if (b.GetParse(u).status != ParsingStatus::VERIFIED) cb = false;
  }
  // ---- equation table
  ops::EquationOptions table;
  const int pairs = pick(MAXPAIRS + 1, "pairs");
  std::vector<std::pair<EntityUID, EntityUID>> chosen;
  bool likeWithLike = true;
  for (int k = 0; k < pairs; ++k) {
    const int i = pick((int)ia.size() + 1, "key"), j = pick((int)ib.size() + 1, "value");
    const EntityUID key = i < (int)ia.size() ? ia[(size_t)i] : 424242u, value = j < (int)ib.size() ? ib[(size_t)j] : 434343u;
    static const ops::Equation::Mode MODES[] = {ops::Equation::Mode::keepHier, ops::Equation::Mode::keepDel, ops::Equation::Mode::createNew};
    const ops::Equation eq{MODES[pick(3, "mode")], "newterm"};
    bool dup = false;
    for (const auto& c : chosen) if (c.first == key || c.second == value) dup = true;
    if (dup) continue;
    table.Insert(key, value, eq);
    chosen.emplace_back(key, value);
    if (a.Contains(key) && b.Contains(value)) {
      if (a.GetRS(key).type != b.GetRS(value).type || typeOf(a, key) == "-" || typeOf(b, value) == "-") likeWithLike = false;
      // derived constituents must have equal typification up to the base identification (here: same base names)
      if (!IsBaseSet(a.GetRS(key).type) && typeOf(a, key) != typeOf(b, value)) likeWithLike = false;
    } else likeWithLike = false;
  }
  const std::string snapA = json(a), snapB = json(b);
  ops::BinarySynthes op(a, b, table);
  const bool admissible = op.IsCorrectlyDefined();
  auto result = op.Execute();
  sym_assert((result != nullptr) == admissible, "result-iff-admissible");
  sym_assert(json(a) == snapA && json(b) == snapB, "operands-untouched");
  if (result == nullptr) { sym_reach("refused"); }
  else {
    const RSForm& r = *result;
    std::set<std::string> aliases; size_t n = 0;
    for (const auto u : r.List()) { ++n; sym_assert(aliases.insert(r.GetRS(u).alias).second, "result-aliases-unique"); }
    sym_assert(n == r.Core().size(), "result-list-complete");
    const auto& tr = op.Translations();
    sym_assert(tr.size() == 2, "two-translations");
    if (sym_is_replay() && tr.size() == 2) {
      for (const auto u : a.List()) sym_note(("operand 1: " + std::to_string(u) + " " + a.GetRS(u).alias + " := " + a.GetRS(u).definition + "  -> " + (tr[0].ContainsKey(u) ? std::to_string(tr[0](u)) : std::string("-"))).c_str());
      for (const auto u : b.List()) sym_note(("operand 2: " + std::to_string(u) + " " + b.GetRS(u).alias + " := " + b.GetRS(u).definition + "  -> " + (tr[1].ContainsKey(u) ? std::to_string(tr[1](u)) : std::string("-"))).c_str());
      for (const auto u : r.List()) sym_note(("result   : " + std::to_string(u) + " " + r.GetRS(u).alias + " := " + r.GetRS(u).definition).c_str());
    }
    if (tr.size() == 2) {
      for (const auto u : ia) { sym_assert(tr[0].ContainsKey(u), "translation-1-total"); if (tr[0].ContainsKey(u)) sym_assert(r.Contains(tr[0](u)), "translation-1-into-result"); }
      for (const auto u : ib) { sym_assert(tr[1].ContainsKey(u), "translation-2-total"); if (tr[1].ContainsKey(u)) sym_assert(r.Contains(tr[1](u)), "translation-2-into-result"); }
      for (const auto& c : chosen)
        if (tr[0].ContainsKey(c.first) && tr[1].ContainsKey(c.second)) sym_assert(tr[0](c.first) == tr[1](c.second), "equated-pair-shares-one-image");
      // kinds survive the translation (an equated pair takes the kind of one of its members)
      for (const auto u : ia) if (tr[0].ContainsKey(u) && r.Contains(tr[0](u))) {
        bool equated = false; for (const auto& c : chosen) if (c.first == u) equated = true;
        if (!equated) sym_assert(r.GetRS(tr[0](u)).type == a.GetRS(u).type, "kind-preserved");
      }
    }
    // every mention is rewritten to its image: the definition of the image of a constituent that was not equated is the
    // operand's definition with each operand alias replaced (simultaneously) by the alias of the image of that constituent
    if (tr.size() == 2)
      for (int side = 0; side < 2; ++side) {
        const RSForm& operand = side == 0 ? a : b;
        const auto& ids = side == 0 ? ia : ib;
        StrSubstitutes images;
        bool total = true;
        for (const auto u : ids) { if (tr[(size_t)side].ContainsKey(u) && r.Contains(tr[(size_t)side](u))) images[operand.GetRS(u).alias] = r.GetRS(tr[(size_t)side](u)).alias; else total = false; }
        if (!total) continue;
        for (const auto u : ids) {
          bool equated = false;
          for (const auto& c : chosen) if ((side == 0 ? c.first : c.second) == u) equated = true;
          if (equated) continue;
          std::string want = operand.GetRS(u).definition;
          rslang::SubstituteGlobals(want, images);
          sym_assert(r.GetRS(tr[(size_t)side](u)).definition == want, side == 0 ? "definition-of-image-mentions-images[operand 1]" : "definition-of-image-mentions-images[operand 2]");
        }
      }
    // no mention of a name that does not resolve (operands have none)
    for (const auto u : r.List())
      for (const auto& name : rslang::ExtractUGlobals(r.GetRS(u).definition))
        sym_assert(r.Core().FindAlias(name).has_value(), "no-dangling-mention-in-result");
    if (ca && cb && likeWithLike) {
      for (const auto u : r.List()) sym_assert(r.GetParse(u).status == ParsingStatus::VERIFIED, "correct-operands-give-correct-result");
      if (tr.size() == 2)
        for (const auto u : ia) if (tr[0].ContainsKey(u) && r.Contains(tr[0](u)) && !IsBaseSet(a.GetRS(u).type)) {
          // typification up to identification: same nesting shape (base names may be renumbered)
          std::string x = typeOf(a, u), y = typeOf(r, tr[0](u));
          for (auto& ch : x) if (ch >= '0' && ch <= '9') ch = '#';
          for (auto& ch : y) if (ch >= '0' && ch <= '9') ch = '#';
          sym_assert(x == y, "typification-preserved-up-to-identification");
        }
      sym_reach("correct-result");
    }
    sym_reach("synthesised");
  }
#ifdef WITNESS
  sym_assert(false, "witness");
#endif
}
#elif PART == 4
static const char* const DEFS1[] = {"X1\\X1", "\xE2\x84\xAC(X1)", "X1\xE2\x88\xAAX1"};
static const char* const DEFS2[] = {"D1\\X1", "D1\xE2\x88\xAAX1", "\xE2\x84\xAC(D1)", "X1\xE2\x88\xAA" "1"};
extern "C" void harness_main() {
  // ---- duplicates inside one schema: a schema merged with itself once or twice (two / three identical copies of
  // every constituent; removal of three copies happens in two rounds), then DeleteDuplicates
  RSForm a;
  std::vector<EntityUID> ia;
  ia.push_back(a.Emplace(CstType::base));
  ia.push_back(a.Emplace(CstType::term, DEFS1[pick(3, "d1")]));
  if (sym_bool("with-d2")) ia.push_back(a.Emplace(CstType::term, DEFS2[pick(4, "d2-template")]));
  if (sym_bool("with-text")) a.SetTermFor(ia[1], "term @{X1|nomn}");
  {
    RSForm twice(a);
    const auto moved = twice.Ops().MergeWith(a);
    EntityTranslation movedAgain;
    const bool three = sym_bool("three-copies");
    if (three) movedAgain = twice.Ops().MergeWith(a);
    twice.UpdateState();
    const auto removed = twice.Ops().DeleteDuplicates();
    for (const auto u : ia) sym_assert(moved.ContainsKey(u) && (twice.Contains(moved(u)) || removed.ContainsKey(moved(u))), "merge-translation-total");
    if (three) for (const auto u : ia) sym_assert(movedAgain.ContainsKey(u) && (twice.Contains(movedAgain(u)) || removed.ContainsKey(movedAgain(u))), "merge-translation-total");
    for (const auto& [gone, kept] : removed) sym_assert(!twice.Contains(gone) && twice.Contains(kept), "delete-duplicates-maps-removed-to-survivor");
    std::set<std::string> names; for (const auto u : twice.List()) sym_assert(names.insert(twice.GetRS(u).alias).second, "merged-aliases-unique");
    for (const auto u : twice.List()) for (const auto& name : rslang::ExtractUGlobals(twice.GetRS(u).definition)) sym_assert(twice.Core().FindAlias(name).has_value(), "no-dangling-mention-after-duplicate-removal");
    sym_reach("duplicates");
  }
  {
    // n (2..4) textually identical derived constituents interleaved with others, one constituent mentioning a copy
    RSForm f;
    f.Emplace(CstType::base);
    const int n = 2 + pick(3, "copies");
    const char* def = DEFS1[pick(3, "copy-definition")];
    std::vector<EntityUID> copies;
    for (int k = 0; k < n; ++k) {
      copies.push_back(f.Emplace(CstType::term, def));
      if (k == 0 && sym_bool("other-between")) f.Emplace(CstType::term, "X1\xC3\x97X1");
    }
    const int mentioned = pick(n, "mentioned-copy");
    const auto user = f.Emplace(CstType::term, "\xE2\x84\xAC(" + f.GetRS(copies[(size_t)mentioned]).alias + ")");
    const auto removed = f.Ops().DeleteDuplicates();
    size_t left = 0;
    for (const auto u : copies) if (f.Contains(u)) ++left;
    sym_assert(left == 1, "exactly-one-copy-survives");
    for (const auto u : copies) if (!f.Contains(u)) sym_assert(removed.ContainsKey(u) && f.Contains(removed(u)), "removed-copy-maps-to-the-survivor");
    for (const auto& [gone, kept] : removed) sym_assert(!f.Contains(gone) && f.Contains(kept), "delete-duplicates-maps-removed-to-survivor");
    for (const auto& name : rslang::ExtractUGlobals(f.GetRS(user).definition)) sym_assert(f.Core().FindAlias(name).has_value(), "no-dangling-mention-after-duplicate-removal");
    sym_assert(f.GetParse(user).status == ParsingStatus::VERIFIED, "user-of-a-copy-stays-correct");
    sym_reach("copies");
  }
#ifdef WITNESS
  sym_assert(false, "witness");
#endif
}
#elif PART == 3
extern "C" void harness_main() {
  // ---- repeated equations on ONE schema object (it owns one long-lived equation processor): the translation
  // returned by each call must describe that call only: keys existed before the call, values exist after it
  {
    RSForm t;
    std::vector<EntityUID> bases;
    for (int i = 0; i < 3; ++i) bases.push_back(t.Emplace(CstType::base));
    t.Emplace(CstType::term, "X1\\X1"); t.Emplace(CstType::term, "X2\\X2"); t.Emplace(CstType::term, "X3\\X3");
    for (int round = 0; round < 2; ++round) {
      std::vector<EntityUID> live; for (const auto u : t.List()) if (t.GetRS(u).type == CstType::base) live.push_back(u);
      if (live.size() < 2) break;
      const int i = pick((int)live.size(), "eq-key"), j = pick((int)live.size(), "eq-value");
      if (i == j) continue;
      std::set<EntityUID> before; for (const auto u : t.List()) before.insert(u);
      // constituents of a schema that is itself the result of an operation carry modification tracking
      switch (pick(3, "tracked")) { case 1: t.Mods().Track(live[(size_t)i]); break; case 2: t.Mods().Track(live[(size_t)j]); break; default: break; }
      const auto tr = t.Ops().Equate(ops::EquationOptions{live[(size_t)i], live[(size_t)j]});
      if (!tr.has_value()) continue;
      for (const auto& [key, value] : *tr) {
        sym_assert(before.count(key) == 1, "equation-translation-keys-are-operands-of-this-call");
        sym_assert(t.Contains(value), "equation-translation-values-exist-in-result");
      }
      const EntityUID ki = live[(size_t)i], kj = live[(size_t)j];
      const bool goneI = !t.Contains(ki), goneJ = !t.Contains(kj);
      sym_assert(goneI != goneJ, "equation-removes-exactly-one-of-the-pair");
      if (goneI != goneJ) { const EntityUID gone = goneI ? ki : kj, kept = goneI ? kj : ki; sym_assert(tr->ContainsKey(gone) && (*tr)(gone) == kept, "removed-member-maps-to-survivor"); }
      std::set<std::string> names; for (const auto u : t.List()) sym_assert(names.insert(t.GetRS(u).alias).second, "aliases-unique-after-equation");
      sym_reach("equated-in-place");
    }
  }
#ifdef WITNESS
  sym_assert(false, "witness");
#endif
}
#else
extern "C" void harness_main() {
  // maps over a universe of 4 identifiers; every entry symbolic
  auto gen = [&](const char* why, int maxEntries, std::vector<std::pair<EntityUID, EntityUID>>& rel) {
    EntityTranslation t;
    const int n = pick(maxEntries + 1, why);
    for (int i = 0; i < n; ++i) {
      const EntityUID k = 10 + (EntityUID)pick(3, "key"), v = 10 + (EntityUID)pick(3, "value");
      bool present = false; for (const auto& e : rel) if (e.first == k) present = true;
      if (present) continue;
      t.Insert(k, v); rel.emplace_back(k, v);
    }
    return t;
  };
  std::vector<std::pair<EntityUID, EntityUID>> r1, r2;
  EntityTranslation t1 = gen("n1", 2, r1);
  const EntityTranslation t2 = gen("n2", 2, r2);
  auto lookup = [](const std::vector<std::pair<EntityUID, EntityUID>>& rel, EntityUID k, EntityUID& out) { for (const auto& e : rel) if (e.first == k) { out = e.second; return true; } return false; };
  {
    EntityTranslation s = t1;
    s.SubstituteValues(t2);
    for (const auto& e : r1) { EntityUID img; const EntityUID want = lookup(r2, e.second, img) ? img : e.second; sym_assert(s.ContainsKey(e.first) && s(e.first) == want, "substitute-values"); }
    sym_assert(s.size() == r1.size(), "substitute-values-keeps-keys");
  }
  {
    EntityTranslation s = t1;
    s.SuperposeWith(t2);
    for (const auto& e : r1) { EntityUID img; const EntityUID want = lookup(r2, e.second, img) ? img : e.second; sym_assert(s.ContainsKey(e.first) && s(e.first) == want, "superpose-composes"); }
    size_t extra = 0;
    for (const auto& e : r2) { EntityUID dummy; if (!lookup(r1, e.first, dummy)) { ++extra; sym_assert(s.ContainsKey(e.first) && s(e.first) == e.second, "superpose-adds-second"); } }
    sym_assert(s.size() == r1.size() + extra, "superpose-size");
  }
  sym_reach("algebra");
#ifdef WITNESS
  sym_assert(false, "witness");
#endif
}
#endif
