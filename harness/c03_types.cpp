// C03: the type checker against the reference typing rules (refs/ref_types.h).
// Expressions: templates over every operator / constructor with ATOM slots (13 differently typed
// atoms incl. an axiom, an undefined name, the empty set, an integer, a tuple, a bare function name)
// and operator / predicate slots; context: the fixed schema of h_schema.h plus S3 in X1 x B(X1).
// For every expression that parses: real verdict == rule verdict; accepted => reported type string
// == principal type of the rules and declared arguments agree; rejected => at least one critical
// error whose position lies inside the expression.
#include "sym.h"
#include "h_schema.h"
#include "ref_types.h"
#include "ref_valueclass.h"
#include "ccl/Strings.hpp"
#include "h_exprs.h"
using namespace ccl;
using namespace ccl::rslang;
static const char* const NAMES[] = {"X1", "X2", "C1", "S1", "S2", "S3", "A1", "D1", "D2", "F1", "F2", "P1", "T1", "X9", "D9", "S9"};

extern "C" void harness_main() {
  semantic::RSForm schema;
  hv::BuildContext(schema);
  schema.Emplace(semantic::CstType::structured, "X1\xC3\x97\xE2\x84\xAC(X1)");   // S3
  schema.Emplace(semantic::CstType::function, "[\xCE\xB1\xE2\x88\x88\xE2\x84\xAC(R1)] \xCE\xB1\\\xCE\xB1");   // F2: the result type mentions a radical bound by its only argument
  std::vector<std::string> names(NAMES, NAMES + sizeof(NAMES) / sizeof(NAMES[0]));
  const ref::TypeEnv env = ref::MakeEnv(schema.RSLang(), names);

  const std::string text = hv::GenExpression();
  auto auditor = schema.RSLang().MakeAuditor();
  const bool ok = auditor->CheckExpression(text, Syntax::MATH);
  if (!auditor->IsParsed()) { sym_reach("syntax-error"); return; }
  const ref::Result want = ref::Check(auditor->AST(), env);
  sym_note(text.c_str());
  sym_note(want.verdict == ref::Verdict::ACCEPT ? ref::ToString(want.type).c_str() : "rules: reject");
  sym_note(ok ? "real: accept" : "real: reject");
  if (want.verdict == ref::Verdict::UNSUPPORTED) { sym_reach("unsupported-by-rules"); return; }
  sym_assert(ok == (want.verdict == ref::Verdict::ACCEPT), ok ? "accepted-but-rules-reject" : "rejected-but-rules-accept");
  if (ok) {
    const auto& t = auditor->GetType();
    const std::string got = std::holds_alternative<LogicT>(t) ? std::string("LOGIC") : std::get<Typification>(t).ToString();
    if (want.verdict == ref::Verdict::ACCEPT) {
      sym_assert(got == ref::ToString(want.type), "reported-type-is-principal-type");
      const auto& args = auditor->GetDeclarationArgs();
      bool same = args.size() == want.declaredArgs.size();
      for (size_t i = 0; same && i < args.size(); ++i) same = args[i].name == want.declaredArgs[i].first && args[i].type.ToString() == ref::ToString(want.declaredArgs[i].second);
      sym_assert(same, "declared-arguments");
    }
    // value-class audit against the rule table of refs/ref_valueclass.h
    const bool valueOK = auditor->CheckValue();
    const refvc::Env vcEnv{schema.RSLang().VCContext(), schema.RSLang().ASTContext()};
    const auto wantClass = refvc::Audit(auditor->AST(), vcEnv);
    sym_assert(valueOK == wantClass.has_value(), valueOK ? "value-audit-accepts-but-rules-reject" : "value-audit-rejects-but-rules-accept");
    if (valueOK && wantClass.has_value()) sym_assert(auditor->GetValueClass() == *wantClass, "value-class-per-rules");
    if (!valueOK) sym_assert(auditor->Errors().HasCriticalErrors(), "value-rejection-has-critical-error");
    if (!valueOK) sym_reach("value-audit-rejected"); else if (auditor->GetValueClass() == ValueClass::props) sym_reach("property"); else sym_reach("value");
    sym_reach("accepted");
  } else {
    bool critical = false;
    const int cps = SizeInCodePoints(text);
    for (const auto& e : auditor->Errors().All()) if (e.IsCritical()) { critical = true; sym_assert(e.position >= 0 && e.position <= cps, "error-position-inside-expression"); }
    sym_assert(critical, "rejection-has-critical-error");
    sym_reach("rejected");
  }
#ifdef WITNESS
  sym_assert(false, "witness");
#endif
}
