// C01: evaluation returns the set-theoretic value.
// Expressions: the template families of h_exprs.h (every operator, binder form, constructor, calls of
// the templated term-function F1, a second function F2 with a nested call, predicate P1), only those
// the type checker accepts; data: |X1| in 0..2 (element identities 1..n), X2, C1, S1 (4 relations),
// S2, S3 as in C02.  Oracle: refs/ref_eval.h (plain recursive evaluator over refs/ref_sets.h).
// Also: the ASCII rendering, a redundantly parenthesised rendering and RSModel::Calculate give the
// same value as Interpreter::Evaluate on the MATH text.
#include "sym.h"
#include "h_schema.h"
#include "h_exprs.h"
#include "ref_eval.h"
#include "ccl/rslang/Interpreter.h"
#include "ccl/rslang/RSGenerator.h"
#include "ccl/rslang/RSErrorCodes.hpp"
using namespace ccl;
using namespace ccl::rslang;
using object::Factory;
static const char* const GLOBALS[] = {"X1", "X2", "C1", "S1", "S2", "S3", "D1", "D2"};
static bool resourceLimit(const ErrorLogger& log) {
  for (const auto& e : log.All())
    if (e.eid == (uint32_t)ValueEID::typedOverflow || e.eid == (uint32_t)ValueEID::booleanLimit || e.eid == (uint32_t)ValueEID::iterationsLimit) return true;
  return false;
}
static std::string show(const std::optional<ExpressionValue>& v) {
  if (!v.has_value()) return "<fail>";
  if (std::holds_alternative<bool>(*v)) return std::get<bool>(*v) ? "TRUE" : "FALSE";
  return std::get<object::StructuredData>(*v).ToString();
}
extern "C" void harness_main() {
  semantic::RSModel model;
  hv::BuildContext(model);
  model.Emplace(semantic::CstType::structured, "X1\xC3\x97\xE2\x84\xAC(X1)");                                      // S3
  model.Emplace(semantic::CstType::function, "[\xCE\xB1\xE2\x88\x88\xE2\x84\xAC(X1)] F1[\xCE\xB1\xE2\x88\xAAX1, debool({1})]\xE2\x88\xA9\xCE\xB1");   // F2: nested call
  // F3, F4: bodies whose ROOT is a construct that the normaliser rewrites (tuple pattern, multi-variable quantifier)
  model.Emplace(semantic::CstType::function, "[\xCE\xB1\xE2\x88\x88\xE2\x84\xAC(X1\xC3\x97X1)] I{(\xCE\xB6,\xCE\xBE) | (\xCE\xBE,\xCE\xB6):\xE2\x88\x88\xCE\xB1}");
  model.Emplace(semantic::CstType::predicate, "[\xCE\xB1\xE2\x88\x88\xE2\x84\xAC(X1)] \xE2\x88\x80\xCE\xBE,\xCE\xB6\xE2\x88\x88\xCE\xB1 \xCE\xBE=\xCE\xB6");   // P2
  auto uid = [&](const char* a) { return model.Core().FindAlias(a).value(); };
  const std::string text = hv::GenExpression();
  auto auditor = model.RSLang().MakeAuditor();
  if (!auditor->CheckExpression(text, Syntax::MATH)) { sym_reach("not-accepted"); return; }
  if (!auditor->GetDeclarationArgs().empty()) { sym_reach("function-definition"); return; }
  // ---- data context
  const int n1 = sym_concretize_i32(sym_range(0, 2, "|X1|"));
  const int n2 = sym_concretize_i32(sym_range(0, 1, "|X2|"));
  for (int i = 0; i < n1; ++i) model.Values().AddBasicElement(uid("X1"), std::string(1, (char)('a' + i)));
  for (int i = 0; i < n2; ++i) model.Values().AddBasicElement(uid("X2"), std::string(1, (char)('p' + i)));
  if (sym_bool("C1-nonempty")) model.Values().AddBasicElement(uid("C1"), "five");
  if (n1 >= 1) {
    const int rel = sym_concretize_i32(sym_range(0, 3, "S1"));
    std::vector<object::StructuredData> pairs;
    if (rel >= 1) pairs.push_back(Factory::TupleV({1, 1}));
    if (rel >= 2 && n1 >= 2) pairs.push_back(Factory::TupleV({1, 2}));
    if (rel >= 3 && n1 >= 2) pairs.push_back(Factory::TupleV({2, 1}));
    model.Values().SetStructureData(uid("S1"), Factory::Set(pairs));
    model.Values().SetStructureData(uid("S2"), Factory::Set({Factory::SetV({1}), Factory::EmptySet()}));
    model.Values().SetStructureData(uid("S3"), Factory::Tuple({Factory::Val(1), Factory::SetV({1})}));
  }
  model.Calculations().RecalculateAll();
  const auto dataCtx = [&](const std::string& name) -> std::optional<object::StructuredData> {
    const auto id = model.Core().FindAlias(name);
    if (!id.has_value()) return std::nullopt;
    return model.Values().SDataFor(*id);
  };
  // ---- the oracle's environment mirrors the model
  ref::DataEnv env;
  for (const char* g : GLOBALS) if (const auto v = dataCtx(g); v.has_value()) env.globals.emplace_back(g, ref::FromSData(*v));
  const auto astCtx = model.RSLang().ASTContext();
  for (const char* f : {"F1", "F2", "F3", "P1", "P2"}) if (const auto* tree = astCtx(f); tree != nullptr) env.functions.emplace_back(f, tree);
  const ref::EvalResult want = ref::Eval(auditor->AST(), env, 64, 20000);

  Interpreter interp(model.RSLang(), astCtx, dataCtx);
  const auto value = interp.Evaluate(text, Syntax::MATH);
  const bool inconclusive = want.kind == ref::EvalResult::FAIL && (want.failClass == ref::F_LIMIT || want.failClass == ref::F_OVERFLOW || want.failClass == ref::F_DEPTH);
  if (value.has_value()) {
    if (!inconclusive) {
      sym_assert(want.kind != ref::EvalResult::FAIL, "value-where-semantics-is-undefined");
      if (want.kind == ref::EvalResult::LOGIC) sym_assert(std::holds_alternative<bool>(*value) && std::get<bool>(*value) == want.truth, "truth-value");
      if (want.kind == ref::EvalResult::VALUE) sym_assert(std::holds_alternative<object::StructuredData>(*value) && ref::Same(want.value, std::get<object::StructuredData>(*value)), "set-theoretic-value");
      sym_reach("value-compared");
    }
  } else {
    const bool justified = want.kind == ref::EvalResult::FAIL || want.failMask != 0 || resourceLimit(interp.Errors());
    sym_assert(justified, "failure-without-reason");
    sym_reach("failure-compared");
  }
  // ---- independence of syntax variant, redundant parentheses, and entry point
  const std::string shown = show(value);
  {
    const std::string ascii = ConvertTo(text, Syntax::ASCII);
    Interpreter viaAscii(model.RSLang(), astCtx, dataCtx);
    if (ascii != text) sym_assert(show(viaAscii.Evaluate(ascii, Syntax::ASCII)) == shown, "ascii-text-same-value");
  }
  if (value.has_value() && std::holds_alternative<object::StructuredData>(*value) && std::get<object::StructuredData>(*value).IsCollection() && text.find(":=") == std::string::npos) {
#if FAMILY == 1 || FAMILY == 4
    // only binary expressions may be bracketed in RSLang; these families are all of the form a op b ...
    Interpreter viaParens(model.RSLang(), astCtx, dataCtx);
    sym_assert(show(viaParens.Evaluate("(" + text + ")\xE2\x88\xAA(" + text + ")", Syntax::MATH)) == shown, "parenthesised-same-value");
#endif
    const auto term = model.Emplace(semantic::CstType::term, text);
    if (model.Calculations().Calculate(term)) {
      const auto viaModel = model.Values().SDataFor(term);
      sym_assert(viaModel.has_value() && viaModel->ToString() == shown, "model-calculate-same-value");
    }
  }
#ifdef WITNESS
  sym_assert(false, "witness");
#endif
}
