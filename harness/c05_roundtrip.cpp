// C05: printing a syntax tree and re-parsing the text gives an equal tree, in both syntaxes.
//  PART 1: trees obtained from the token-stream generators of h_tokens.h (symbolic operators).
//  PART 2: a corpus of templates covering every constructor, with symbolic operator / predicate
//          slots, Greek local names, integer literals with symbolic digits.
// For every tree t that the parser builds:  Parse(FromTree(t, s), s) == t  for s in {MATH, ASCII}
// (compared through AST2String, i.e. operators, literals, indices, nesting, identifiers; in ASCII
// Greek letters of locals are transliterated), ConvertTo is idempotent and MATH->ASCII->MATH
// preserves the tree.
#include "sym.h"
#include "h_tokens.h"
#include "ccl/rslang/RSGenerator.h"
#include <string>
#ifndef PART
#define PART 1
#endif
#ifndef DIGITS
#define DIGITS 3
#endif
#ifndef TEMPLATE_FROM
#define TEMPLATE_FROM 0
#endif
#ifndef TEMPLATE_TO
#define TEMPLATE_TO 1000
#endif
using namespace ccl;
using namespace ccl::rslang;
static const char* const SETOPS[] = {"+", "-", "*", "\xE2\x88\xAA", "\xE2\x88\xA9", "\\", "\xE2\x88\x86", "\xC3\x97"};
static const char* const LOGOPS[] = {" & ", " \xE2\x88\xA8 ", " \xE2\x87\x92 ", " \xE2\x87\x94 "};
static const char* const PREDS[] = {"\xE2\x88\x88", "\xE2\x88\x89", "\xE2\x8A\x82", "\xE2\x8A\x86", "\xE2\x8A\x84", "=", "\xE2\x89\xA0", "<", "\xE2\x89\xA4", ">", "\xE2\x89\xA5"};
static const char* const TEMPLATES[] = {
  "(X1%sX2)%sX3", "X1%s(X2%sX3)", "X1%sX2%sX3", "(X1%sX2%sX3)%sX1",
  "X1%s(X2%sX3)%sX1", "X1%sX2%sX3%sX1", "(X1%sX2)%s(X3%sX1)", "X1%s(X2%sX3)%sX1%sX2",   // an operand that is neither the first nor the last (n-ary product)
  "\xE2\x84\xAC(X1%sX2)", "\xE2\x84\xAC\xE2\x84\xAC(X1)%sX2", "card(X1%sX2)%s1", "pr1(S1)%sX1", "Pr1,2(S1)%sX1", "red(S2)%sX1", "debool(X1)%sX1", "bool(X1)%sX1",
  "X1%pX2", "X1%sX2%pX3%sX1", "(X1%pX2)%l(X1%pX2)", "\xC2\xAC(X1%pX2)%lX1=X1", "\xC2\xACX1%pX2",
  "(X1=X1%lX1=X1)%lX1=X1", "X1=X1%l(X1=X1%lX1=X1)", "X1=X1%lX1=X1%lX1=X1",
  "\xE2\x88\x80\xCE\xBE\xE2\x88\x88X1 \xCE\xBE%pX1", "\xE2\x88\x83\xCE\xB1,\xCE\xB2\xE2\x88\x88X1 \xCE\xB1%p\xCE\xB2", "\xE2\x88\x80(a,b)\xE2\x88\x88S1 a%pb", "\xE2\x88\x80\xCE\xBE\xE2\x88\x88X1 (\xCE\xBE=\xCE\xBE%l\xCE\xBE=\xCE\xBE)", "\xE2\x88\x80\xCE\xBE\xE2\x88\x88X1 \xCE\xBE=\xCE\xBE%l1=1",
  "D{\xCE\xBE\xE2\x88\x88X1 | \xCE\xBE%pX1}", "{\xCE\xBE\xE2\x88\x88X1 | \xCE\xBE%p\xCE\xBE}", "D{(a,b)\xE2\x88\x88S1 | a%pb}",
  "R{\xCE\xBE:=X1 | \xCE\xBE%s\xCE\xBE}", "R{\xCE\xBE:=X1 | 1=1 | \xCE\xBE%sX1}", "R{(a,b):=(X1,X2) | (a%sb,b)}",
  "I{(a,b) | a:\xE2\x88\x88X1; b:=a%sa; a%pb}", "I{a | a:\xE2\x88\x88X1}",
  "F1[X1, X2%sX3]", "P1[X1%sX2]%lX1=X1", "Fi1,2[X1,X2](S1)%sX1", "Fi1[X1%sX2](S1)",
  "(X1,X2%sX3)", "{X1,X2%sX3}", "((X1,X2),X3)", "{{X1}}",
  "D1:==X1%sX2", "A1:==X1%pX2", "S1::=\xE2\x84\xAC(X1\xC3\x97X2)", "X1:==",
  "F1:==[\xCE\xB1\xE2\x88\x88X1,\xCE\xB2\xE2\x88\x88\xE2\x84\xAC(X1)] \xCE\xB1%p\xCE\xB2", "[\xCE\xB1\xE2\x88\x88R1\xC3\x97R2] pr1(\xCE\xB1)%sX1",
  "\xCE\xB1" "1%p\xCF\x89_2", "%i%s1", "X1%p%i", "Z%s{%i}", "\xE2\x88\x85%pX1",
  "Pr1,3,2(X1\xC3\x97X1\xC3\x97X1)%sX1", "pr3,1,2((X1,X2,X3))", "Fi1,2,3[X1,X1,X1](X1\xC3\x97X1\xC3\x97X1)", "Fi3,1[S1](X1\xC3\x97X1\xC3\x97X1)", "Pr2,1,3,1(S1)", "pr10,2(S1)",
};
static const int NTEMPL = sizeof(TEMPLATES) / sizeof(TEMPLATES[0]);

// structural equality through the cursor API: token ids, payloads (names, integers, index lists), nesting -
// independent of Token::ToString / AST2String.  ignoreLocalNames: ASCII transliterates Greek locals.
static bool sameTree(SyntaxTree::Cursor a, SyntaxTree::Cursor b, bool ignoreLocalNames) {
  if (a->id != b->id || a.ChildrenCount() != b.ChildrenCount()) return false;
  const auto& x = a->data; const auto& y = b->data;
  if (x.HasValue() != y.HasValue()) return false;
  if (x.HasValue()) {
    if (x.IsInt() != y.IsInt() || x.IsText() != y.IsText() || x.IsTuple() != y.IsTuple()) return false;
    if (x.IsInt() && x.ToInt() != y.ToInt()) return false;
    if (x.IsText() && !(ignoreLocalNames && a->id == TokenID::ID_LOCAL) && x.ToText() != y.ToText()) return false;
    if (x.IsTuple() && x.ToTuple() != y.ToTuple()) return false;
  }
  for (Index i = 0; i < a.ChildrenCount(); ++i) if (!sameTree(a.Child(i), b.Child(i), ignoreLocalNames)) return false;
  return true;
}
static void roundTrip(const SyntaxTree& tree) {
  const std::string want = AST2String::Apply(tree);
  std::string mathText;
  for (int s = 0; s < 2; ++s) {
    const Syntax syntax = s == 0 ? Syntax::MATH : Syntax::ASCII;
    const std::string text = Generator::FromTree(tree, syntax);
    if (s == 0) mathText = text;
    Parser again;
    const bool ok = again.Parse(text, syntax);
    sym_assert(ok, s == 0 ? "math-output-reparses" : "ascii-output-reparses");
    if (ok) {
      // in ASCII Greek locals are transliterated: compare against the tree of the converted text's
      // own MATH reading is not possible, so compare structure after printing both back in ASCII
      if (s == 0) { sym_assert(AST2String::Apply(again.AST()) == want, "math-roundtrip-tree"); sym_assert(sameTree(again.AST().Root(), tree.Root(), false) && again.AST() == tree, "math-roundtrip-tree-structural"); }
      else {
        sym_assert(sameTree(again.AST().Root(), tree.Root(), true), "ascii-roundtrip-tree-structural");
        Parser viaMath;   // the same tree printed in ASCII must equal the ASCII print of the re-parsed tree
        sym_assert(Generator::FromTree(again.AST(), Syntax::ASCII) == text, "ascii-print-is-fixpoint");
        const std::string backMath = ConvertTo(text, Syntax::MATH);
        const bool ok2 = viaMath.Parse(backMath, Syntax::MATH);
        sym_assert(ok2, "ascii-to-math-reparses");
        if (ok2) sym_assert(Generator::FromTree(viaMath.AST(), Syntax::ASCII) == text, "ascii-roundtrip-tree");
      }
    }
  }
  // conversion is idempotent
  const std::string a1 = ConvertTo(mathText, Syntax::ASCII);
  // known finding: ConvertTo(x, S) reads x in the OTHER syntax, so text that is already in S and also
  // parses under the other reading ('*' = product in ASCII / multiplication in MATH, '\\name' = set minus) changes
  sym_assert(ConvertTo(a1, Syntax::ASCII) == a1, "convert-ascii-idempotent");
  const std::string m1 = ConvertTo(mathText, Syntax::MATH);
  sym_assert(ConvertTo(m1, Syntax::MATH) == m1, "convert-math-idempotent");
  // MATH -> ASCII -> MATH keeps the tree when no Greek local is involved (transliteration is lossy by design)
  bool greek = false;
  for (unsigned char ch : mathText) if (ch == 0xCE || ch == 0xCF) greek = true;
  if (!greek) {
    Parser back;
    const bool ok = back.Parse(ConvertTo(a1, Syntax::MATH), Syntax::MATH);
    sym_assert(ok && AST2String::Apply(back.AST()) == want, "math-ascii-math-preserves-tree");
  }
}

extern "C" void harness_main() {
#if PART == 1
  std::vector<Token> tokens = hv::GenTokens();
  detail::RSParser parser{};
  size_t next = 0;
  const int32_t endPos = tokens.back().pos.finish;
  const bool ok = parser.Parse([&]() {
    if (next < tokens.size()) return tokens[next++];
    return Token{TokenID::END, StrRange{endPos, endPos}};
  });
  if (!ok) { sym_reach("rejected"); return; }
  roundTrip(parser.AST());
  sym_reach("roundtrip");
#else
#ifdef ONLY_TEMPLATE
  const char* tpl = TEMPLATES[ONLY_TEMPLATE];
#else
  const char* tpl = TEMPLATES[sym_concretize_i32(sym_range(TEMPLATE_FROM, TEMPLATE_TO < NTEMPL ? TEMPLATE_TO : NTEMPL - 1, "template"))];
#endif
  std::string text;
  for (const char* p = tpl; *p; ++p) {
    if (*p != '%') { text += *p; continue; }
    ++p;
    switch (*p) {
    case 's': text += SETOPS[sym_concretize_i32(sym_range(0, 7, "set-op"))]; break;
    case 'l': text += LOGOPS[sym_concretize_i32(sym_range(0, 3, "logic-op"))]; break;
    case 'p': text += PREDS[sym_concretize_i32(sym_range(0, 10, "predicate"))]; break;
    case 'i': {   // integer literal from a menu of corner cases
      static const char* const INTS[] = {"0", "1", "9", "10", "42", "007", "2147483647", "100000"};
      text += INTS[sym_concretize_i32(sym_range(0, 7, "integer"))];
      break;
    }
    }
  }
  Parser parser;
  const bool ok = parser.Parse(text, Syntax::MATH);
  sym_assert(ok, "corpus-template-parses");
  if (ok) { roundTrip(parser.AST()); sym_reach("roundtrip"); }
#endif
#ifdef WITNESS
  sym_assert(false, "witness");
#endif
}
