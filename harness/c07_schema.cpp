// C07 + C09: editing histories of a conceptual schema.
// A schema is built from templates whose mentioned aliases have symbolic digits (forward, backward,
// self and missing references arise by choice), then K editing operations with symbolic kind, target
// and arguments are applied.  After EVERY step the identity/ordering invariants of C09 are asserted;
// after the last step everything the schema reports per constituent (status, typification, arguments,
// value class, syntax tree, dependency edges, resolved texts) is compared with (a) a schema freshly
// loaded from the records of the final state and (b) FromJSON(ToJSON()).
#include "sym.h"
#include "ccl/semantic/RSForm.h"
#include "ccl/api/RSFormJA.h"
#include "ccl/rslang/SyntaxTree.h"
#include <string>
#include <set>
#ifndef K
#define K 1
#endif
#ifndef INIT
#define INIT 0      // 0: symbolic initial schema, 1: fixed chain X1; D1:=X1; D2:=D1
#endif
#ifndef OPS
#define OPS 10      // number of operation kinds in the menu (4 = core sub-menu)
#endif
using namespace ccl;
using namespace ccl::semantic;
static int pick(int n, const char* name) { return sym_concretize_i32(sym_range(0, n - 1, name)); }
static std::string digit(const char* name) { return std::string(1, (char)('1' + pick(3, name))); }

static std::string genDefinition(const char* why) {
  switch (pick(9, why)) {
  case 0: return "X1";
  case 1: return "X1\xE2\x88\xAA" "D" + digit("ref");           // X1 ∪ Dn
  case 2: return "D" + digit("ref") + "\\X1";
  case 3: return "\xE2\x84\xAC(D" + digit("ref") + ")";        // B(Dn)
  case 4: return "D" + digit("ref") + "\xE2\x88\xAA" "D" + digit("ref2");
  case 5: return "X" + digit("ref");
  case 6: return "";
  case 7: return "X1\xE2\x88\xAA";                              // syntax error
  default: return "D" + digit("ref");
  }
}
static std::string genInitialDefinition(const char* why) {
#ifdef FULL_INIT
  return genDefinition(why);
#else
  switch (pick(5, why)) {
  case 0: return "X1";
  case 1: return "D" + digit("ref");
  case 2: return "X1\xE2\x88\xAA" "D" + digit("ref");
  case 3: return "";
  default: return "X1\xE2\x88\xAA";
  }
#endif
}
static std::string genTermText() {
  switch (pick(5, "term-text")) {
  case 0: return "t";
  case 1: return "@{D" + digit("tref") + "|nomn}";
  case 2: return "a @{X1|nomn} b @{D" + digit("tref") + "|sing}";
  case 3: return "";
  default: return "@{X9|nomn}";
  }
}

static std::string typeString(const ParsingInfo& p) {
  if (!p.exprType.has_value()) return "-";
  if (std::holds_alternative<rslang::LogicT>(*p.exprType)) return "LOGIC";
  return std::get<rslang::Typification>(*p.exprType).ToString();
}
static std::string describe(const RSForm& f, EntityUID uid, bool withTexts) {
  const auto& rs = f.GetRS(uid);
  const auto& p = f.GetParse(uid);
  std::string o = rs.alias + "#" + std::to_string((int)rs.type) + "|" + rs.definition + "|" + rs.convention + "|S" + std::to_string((int)p.status) + "|T" + typeString(p) + "|V" + std::to_string((int)p.valueClass) + "|A";
  if (p.arguments.has_value()) for (const auto& a : *p.arguments) o += a.name + ":" + a.type.ToString() + ",";
  o += "|";
  if (p.ast != nullptr) o += rslang::AST2String::Apply(*p.ast);
  // dependency edges by alias (uids differ between the two schemas only if records were reloaded with the same uid - they are equal here)
  std::set<std::string> inputs;
  for (const auto in : f.RSLang().Graph().InputsFor(uid)) inputs.insert(f.GetRS(in).alias);
  o += "|I";
  for (const auto& a : inputs) o += a + ",";
  const auto& t = f.GetText(uid);
  o += "|R" + t.term.Text().Raw() + "|" + t.definition.Raw();
  if (withTexts) o += "|N" + t.term.Nominal() + "|" + t.definition.Str();
  return o;
}

// C09 invariants
static void checkInvariants(const RSForm& f, const char* when) {
  (void)when;
  std::set<EntityUID> uids; std::set<std::string> aliases;
  size_t n = 0; int lastGroup = 0;
  for (const auto uid : f.List()) {
    ++n;
    sym_assert(uids.insert(uid).second, "list-has-each-constituent-once");
    sym_assert(f.Contains(uid), "listed-constituent-exists");
    const auto& rs = f.GetRS(uid);
    sym_assert(aliases.insert(rs.alias).second, "aliases-unique");
    sym_assert(rs.uid == uid, "record-uid");
    // alias letter matches the kind
    char want = '?';
    switch (rs.type) {
    case CstType::base: want = 'X'; break; case CstType::constant: want = 'C'; break; case CstType::structured: want = 'S'; break;
    case CstType::axiom: want = 'A'; break; case CstType::term: want = 'D'; break; case CstType::function: want = 'F'; break;
    case CstType::theorem: want = 'T'; break; case CstType::predicate: want = 'P'; break; default: break;
    }
    sym_assert(!rs.alias.empty() && rs.alias[0] == want, "alias-letter-matches-kind");
    const int group = rs.type == CstType::base ? 1 : rs.type == CstType::constant ? 2 : rs.type == CstType::structured ? 3 : 4;
    sym_assert(group >= lastGroup, "list-keeps-group-order");
    lastGroup = group;
    sym_assert(f.Core().FindAlias(rs.alias) == uid, "find-alias");
    sym_assert(f.Texts().Contains(uid), "texts-contain-constituent");
    sym_assert(f.RSLang().Graph().Contains(uid), "graph-contains-constituent");
  }
  sym_assert(n == f.Core().size(), "list-is-permutation-of-core");
  sym_assert((size_t)f.RSLang().Graph().ItemsCount() == n, "graph-has-no-stale-items");
}

static std::vector<EntityUID> listOf(const RSForm& f) { std::vector<EntityUID> v; for (const auto u : f.List()) v.push_back(u); return v; }

static void applyOperation(RSForm& f) {
  const auto items = listOf(f);
  const int op = pick(OPS, "op");
  const std::string before = api::RSFormJA::FromData(RSForm(f)).ToJSON();
  bool accepted = true; bool canRefuse = true;
  EntityUID target = 0;
  if (op != 0 && op != 7 && op != 8 && op != 9) {
    if (items.empty()) return;
    target = items[(size_t)pick((int)items.size(), "target")];
  }
  switch (op) {
  case 0: {   // Emplace
    static const CstType KINDS[] = {CstType::term, CstType::base, CstType::axiom, CstType::structured};
    f.Emplace(KINDS[pick(4, "kind")], genDefinition("emplace-def"));
    canRefuse = false;
    break;
  }
  case 1: accepted = f.Erase(target); if (accepted) { sym_assert(!f.Contains(target) && !f.Texts().Contains(target) && !f.RSLang().Graph().Contains(target) && !f.Mods().IsTracking(target), "erased-is-gone-from-every-view"); } break;
  case 2: accepted = f.SetExpressionFor(target, genDefinition("new-def")); break;
  case 3: {
    static const char* const NAMES[] = {"D1", "D2", "D3", "D7", "X2", "X1", "d1", "D", ""};
    accepted = f.SetAliasFor(target, NAMES[pick(9, "new-alias")], sym_bool("substitute"));
    break;
  }
  case 4: accepted = f.SetTermFor(target, genTermText()); break;
  case 5: accepted = f.SetDefinitionFor(target, genTermText()); break;
  case 6: {
    auto it = f.List().begin();
    const int pos = pick((int)items.size() + 1, "move-before");
    for (int i = 0; i < pos; ++i) ++it;
    accepted = f.MoveBefore(target, it);
    break;
  }
  case 7: {   // bulk InsertCopy of two records that mention each other
    ConceptRecord a, b;
    a.uid = 7001; a.alias = "D" + digit("bulk-alias"); a.type = CstType::term; a.rs = genDefinition("bulk-def");
    b.uid = 7002; b.alias = "D" + digit("bulk-alias2"); b.type = CstType::term; b.rs = a.alias + "\\X1";
    b.term = lang::LexicalTerm{"@{" + a.alias + "|nomn}"};
    f.InsertCopy(std::vector<ConceptRecord>{a, b});
    canRefuse = false;
    break;
  }
  case 8: f.ResetAliases(); canRefuse = false; break;
  default: {  // bulk InsertCopy of a symbolic selection taken from a COPY of this schema (every identifier collides with an existing one)
    const RSForm source(f);
    VectorOfEntities selection;
    const unsigned mask = (unsigned)pick(1 << (items.size() < 3 ? (int)items.size() : 3), "copied-selection");
    for (size_t i = 0; i < items.size() && i < 3; ++i) if (mask & (1u << i)) selection.push_back(items[i]);
    const auto before_n = items.size();
    const auto inserted = f.InsertCopy(selection, source.Core());
    sym_assert(inserted.size() == selection.size() && listOf(f).size() == before_n + selection.size(), "bulk-copy-inserts-every-selected-constituent");
    for (const auto u : inserted) sym_assert(f.Contains(u), "bulk-copy-returns-existing-constituents");
    canRefuse = false;
    break;
  }
  }
  if (canRefuse && !accepted) {
    sym_assert(api::RSFormJA::FromData(RSForm(f)).ToJSON() == before, "refused-operation-changes-nothing");
    sym_reach("refused");
  }
}

extern "C" void harness_main() {
  RSForm f;
  f.Emplace(CstType::base);   // X1
#if INIT == 0
  f.Emplace(CstType::term, genInitialDefinition("init-def1"));
  f.Emplace(CstType::term, genInitialDefinition("init-def2"));
  if (sym_bool("with-term-ref")) f.SetTermFor(listOf(f)[1], "@{D2|nomn}");
#elif INIT == 2
  // a reference chain that crosses from terms into text definitions: D1 has a term, the term of D2 mentions D1, the text
  // definition of D3 mentions D2 only, the term of X1 mentions D2
  f.Emplace(CstType::term, "X1");
  f.Emplace(CstType::term, "D1");
  f.Emplace(CstType::term, "D2\xE2\x88\xAAX1");
  { const auto l = listOf(f);
    f.SetTermFor(l[1], "first");
    f.SetTermFor(l[2], "second @{D1|nomn}");
    f.SetDefinitionFor(l[3], "uses @{D2|nomn}");
    f.SetDefinitionFor(l[0], "base of @{D2|plur}"); }
#else
  f.Emplace(CstType::term, "X1");
  f.Emplace(CstType::term, "D1");
#endif
  checkInvariants(f, "initial");
  for (int step = 0; step < K; ++step) {
    applyOperation(f);
    checkInvariants(f, "after-step");
  }
  // ---- C07: incremental state == state from scratch
  RSForm scratch;
  for (const auto uid : f.List()) scratch.Load(f.Core().AsRecord(uid));
  scratch.UpdateState();
  auto viaJson = api::RSFormJA::FromJSON(api::RSFormJA::FromData(RSForm(f)).ToJSON());
  // resolved texts are only comparable when term references are acyclic: here, when no referenced term refers further
  bool chained = false;
  for (const auto uid : f.List()) {
    for (const auto& ref : f.GetText(uid).term.Text().Referals()) {
      const auto other = f.Core().FindAlias(ref);
      if (other.has_value() && !f.GetText(*other).term.Text().Referals().empty()) chained = true;
    }
  }
  const auto a = listOf(f), b = listOf(scratch), c = listOf(viaJson.data());
  sym_assert(a == b, "scratch-has-same-order");
  sym_assert(a == c, "json-has-same-order");
  if (a == b && a == c)
    for (const auto uid : a) {
      const std::string want = describe(f, uid, !chained);
      if (sym_is_replay() && describe(scratch, uid, !chained) != want) { sym_note(("incremental: " + want).c_str()); sym_note(("scratch    : " + describe(scratch, uid, !chained)).c_str()); }
      sym_assert(describe(scratch, uid, !chained) == want, "incremental-equals-scratch");
      sym_assert(describe(viaJson.data(), uid, !chained) == want, "incremental-equals-json-reload");
    }
  sym_reach("compared");
#ifdef WITNESS
  sym_assert(false, "witness");
#endif
}
