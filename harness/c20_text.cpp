// C20 / split, trim, isint: for every byte string of at most N bytes (all 256 byte values).
#include "sym.h"
#include "ccl/Strings.hpp"
#ifndef N
#define N 4
#endif
static bool refSpace(unsigned char c) { return c == ' ' || (c >= 9 && c <= 13); }
extern "C" void harness_main() {
  char buf[N + 1];
  sym_bytes(buf, N, "text");
  buf[N] = 0;
  int n = sym_concretize_i32(sym_range(0, N, "len"));
  std::string_view s(buf, (size_t)n);
#if PART == 1   // SplitBySymbol
  char delim = (char)sym_u8("delim");
  auto items = ccl::SplitBySymbol(s, delim);
  int delims = 0;
  for (int i = 0; i < n; ++i) if (buf[i] == delim) ++delims;
  sym_assert((int)items.size() == delims + 1, "split-count");
  // items tile the input: item k starts right after the k-th delimiter
  const char* expect = buf;
  for (size_t k = 0; k < items.size(); ++k) {
    sym_assert(items[k].data() == expect, "split-item-start");
    sym_assert(items[k].data() >= buf && items[k].data() + items[k].size() <= buf + n, "split-item-inside-input");
    for (char c : items[k]) sym_assert(c != delim, "split-item-has-delim");
    expect = items[k].data() + items[k].size() + 1;
    if (k + 1 < items.size()) sym_assert(items[k].data()[items[k].size()] == delim, "split-separator");
  }
  sym_assert(expect == buf + n + 1, "split-covers-input");
  sym_reach("split");
#elif PART == 2  // TrimWhitespace
  auto t = ccl::TrimWhitespace(s);
  int lo = 0, hi = n;
  while (lo < hi && refSpace((unsigned char)buf[lo])) ++lo;
  while (hi > lo && refSpace((unsigned char)buf[hi - 1])) --hi;
  sym_assert((int)t.size() == hi - lo, "trim-size");
  if (hi > lo) sym_assert(t.data() == buf + lo, "trim-start");
  sym_assert(t.data() >= buf && t.data() + t.size() <= buf + n, "trim-inside-input");
  sym_reach("trim");
#else            // IsInteger
  bool r = ccl::IsInteger(s);
  bool e;
  {
    int i = 0;
    if (n > 0 && buf[0] == '-') i = 1;
    e = n > i;
    for (int j = i; j < n; ++j) if (!(buf[j] >= '0' && buf[j] <= '9')) e = false;
  }
  sym_assert(r == e, "isinteger");
  sym_reach("isint");
#endif
#ifdef WITNESS
  sym_assert(false, "witness");
#endif
}
