// C08 (other identifier translations): equation, duplicate deletion and alias reset rewrite every mention and
// leave a schema that is "the old one up to the renaming".
// Schema from templates: X1, X2, D1 := T(X1), D2 := T(X2) (duplicates once X2 is identified with X1),
// D3 := M(D2, X2) mentioning the constituents that will be renamed / removed, a convention and text references
// mentioning them.  One translation (symbolic): Equate(X2,X1) / Equate(X1,X2) / Equate(D2,D1) /
// make D2 a textual duplicate of D1 + DeleteDuplicates / Erase(D1 | X1) + ResetAliases; optionally followed by an
// edit of the first derived constituent (the kept dependency graph decides what is re-checked).
// Oracle: a schema rebuilt from the final records and analysed from scratch: per constituent status, type,
// dependency edges (by alias), tree and raw texts must coincide; no alias of a removed constituent is mentioned
// anywhere (formal definitions, conventions, text references); aliases stay unique.
#include "sym.h"
#include "ccl/rslang/RSExpr.h"
#include "ccl/semantic/RSForm.h"
#include "ccl/rslang/SyntaxTree.h"
#include <set>
#include <string>
using namespace ccl;
using namespace ccl::semantic;
static int pick(int n, const char* name) { return sym_concretize_i32(sym_range(0, n - 1, name)); }
static std::string inst(const char* tpl, const std::string& a, const std::string& b) {
  std::string o;
  for (const char* p = tpl; *p; ++p) { if (*p == '#') o += a; else if (*p == '$') o += b; else o += *p; }
  return o;
}
static std::string typeString(const ParsingInfo& p) {
  if (!p.exprType.has_value()) return "-";
  if (std::holds_alternative<rslang::LogicT>(*p.exprType)) return "LOGIC";
  return std::get<rslang::Typification>(*p.exprType).ToString();
}
static std::string describe(const RSForm& f, EntityUID uid) {
  const auto& rs = f.GetRS(uid);
  const auto& p = f.GetParse(uid);
  std::string o = rs.alias + "#" + std::to_string((int)rs.type) + "|" + rs.definition + "|" + rs.convention + "|S" + std::to_string((int)p.status) + "|T" + typeString(p) + "|";
  if (p.ast != nullptr) o += rslang::AST2String::Apply(*p.ast);
  std::set<std::string> inputs;
  for (const auto in : f.RSLang().Graph().InputsFor(uid)) inputs.insert(f.GetRS(in).alias);
  o += "|I";
  for (const auto& a : inputs) o += a + ",";
  const auto& t = f.GetText(uid);
  o += "|R" + t.term.Text().Raw() + "|" + t.definition.Raw();
  return o;
}
static void compareWithScratch(const RSForm& f, const char* tag) {
  RSForm scratch;
  for (const auto uid : f.List()) scratch.Load(f.Core().AsRecord(uid));
  scratch.UpdateState();
  for (const auto uid : f.List()) {
    if (sym_is_replay() && describe(f, uid) != describe(scratch, uid)) { sym_note(("kept   : " + describe(f, uid)).c_str()); sym_note(("scratch: " + describe(scratch, uid)).c_str()); }
    sym_assert(scratch.Contains(uid) && describe(f, uid) == describe(scratch, uid), tag);
  }
}

extern "C" void harness_main() {
  static const char* const T[] = {"#\xE2\x88\xAA#", "\xE2\x84\xAC(#)", "#\\#"};
  static const char* const M[] = {"#\xE2\x88\xA9$", "\xE2\x84\xAC(#)", "$\\#", "#\xE2\x88\xAA" "D1", "pr1(#\xC3\x97$)"};
  RSForm f;
  const auto x1 = f.Emplace(CstType::base);
  const auto x2 = f.Emplace(CstType::base);
  const int t = pick(3, "definition-template");
  const auto d1 = f.Emplace(CstType::term, inst(T[t], "X1", ""));
  const auto d2 = f.Emplace(CstType::term, inst(T[t], "X2", ""));
  const auto d3 = f.Emplace(CstType::term, inst(M[pick(5, "mention-template")], "D2", "X2"));
  f.SetConventionFor(x1, "see X2 and D2");
  f.SetTermFor(d3, "term of @{D2|nomn} over @{X2|plur}");
  f.SetDefinitionFor(x1, "text @{D2|sing}");   // D1 and D2 themselves stay free of texts so that they can become duplicates
  std::set<std::string> aliasesBefore; for (const auto u : f.List()) aliasesBefore.insert(f.GetRS(u).alias);

  // the dependency graph is built lazily: a schema whose graph was already looked at (e.g. displayed) and one whose graph is still pending
  if (sym_bool("graph-viewed-before")) for (const auto u : f.List()) (void)f.RSLang().Graph().InputsFor(u);
  bool resetAliases = false;
  switch (pick(6, "translation")) {
  case 0: (void)f.Ops().Equate(ops::EquationOptions{x2, x1}); break;
  case 1: (void)f.Ops().Equate(ops::EquationOptions{x1, x2}); break;
  case 2: (void)f.Ops().Equate(ops::EquationOptions{d2, d1}); break;
  case 3: f.SetExpressionFor(d2, f.GetRS(d1).definition); (void)f.Ops().DeleteDuplicates(); break;
  case 4: f.Erase(d1); f.ResetAliases(); resetAliases = true; break;
  default: f.Erase(x1); f.ResetAliases(); resetAliases = true; break;
  }
  // aliases unique; nothing mentions a removed constituent any more (alias reset re-uses names, so only for the other translations)
  std::set<std::string> aliases;
  for (const auto u : f.List()) sym_assert(aliases.insert(f.GetRS(u).alias).second, "aliases-unique-after-translation");
  if (!resetAliases)
    for (const auto& gone : aliasesBefore) {
      if (aliases.count(gone)) continue;
      for (const auto u : f.List()) {
        const auto& rs = f.GetRS(u);
        sym_assert(rslang::ExtractUGlobals(rs.definition).count(gone) == 0, "removed-name-not-mentioned-in-definition");
        sym_assert(rslang::ExtractUGlobals(rs.convention).count(gone) == 0, "removed-name-not-mentioned-in-convention");
        const auto& tx = f.GetText(u);
        sym_assert(tx.term.Text().Referals().count(gone) == 0 && tx.definition.Referals().count(gone) == 0, "removed-name-not-referenced-in-texts");
      }
    }
  if (sym_is_replay()) for (const auto u : f.List()) sym_note(("after translation: " + describe(f, u)).c_str());
  compareWithScratch(f, "translated-schema-equals-schema-from-its-content");
  // a follow-up edit of a constituent others depend on: what is re-checked is decided by the kept dependency graph
  if (sym_bool("follow-up-edit")) {
    for (const auto u : f.List()) if (f.GetRS(u).type == CstType::term) { f.SetExpressionFor(u, pick(2, "new-definition") ? "X1\xC3\x97X1" : "1"); break; }
    compareWithScratch(f, "edit-after-translation-equals-schema-from-its-content");
  }
  sym_reach("translated");
#ifdef WITNESS
  sym_assert(false, "witness");
#endif
}
