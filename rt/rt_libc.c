/* Models of the libc externals the library uses.  Compiled to bitcode (-fno-builtin) and executed
 * symbolically like everything else, so they work on symbolic bytes.  "C" locale semantics.      */
#include <stddef.h>
#include <stdint.h>
#include <limits.h>

char __libc_single_threaded = 1;
static int rt_errno;
int* __errno_location(void) { return &rt_errno; }

int rt_memcmp(const void* a, const void* b, size_t n) {
  const unsigned char *x = a, *y = b;
  for (size_t i = 0; i < n; ++i)
    if (x[i] != y[i]) return x[i] < y[i] ? -1 : 1;
  return 0;
}
size_t rt_strlen(const char* s) { size_t n = 0; while (s[n]) ++n; return n; }
void* rt_memchr(const void* s, int c, size_t n) {
  const unsigned char* p = s;
  for (size_t i = 0; i < n; ++i) if (p[i] == (unsigned char)c) return (void*)(p + i);
  return 0;
}
int strcmp(const char* a, const char* b) {
  for (;; ++a, ++b) {
    unsigned char x = (unsigned char)*a, y = (unsigned char)*b;
    if (x != y) return x < y ? -1 : 1;
    if (!x) return 0;
  }
}
int strncmp(const char* a, const char* b, size_t n) {
  for (size_t i = 0; i < n; ++i) {
    unsigned char x = (unsigned char)a[i], y = (unsigned char)b[i];
    if (x != y) return x < y ? -1 : 1;
    if (!x) return 0;
  }
  return 0;
}
char* strchr(const char* s, int c) {
  for (;; ++s) { if (*s == (char)c) return (char*)s; if (!*s) return 0; }
}
char* strrchr(const char* s, int c) {
  const char* r = 0;
  for (;; ++s) { if (*s == (char)c) r = s; if (!*s) return (char*)r; }
}

/* <ctype.h>, "C" locale; values outside 0..127 are in no class (glibc behaviour for -128..255) */
int isdigit(int c) { return c >= '0' && c <= '9'; }
int isupper(int c) { return c >= 'A' && c <= 'Z'; }
int islower(int c) { return c >= 'a' && c <= 'z'; }
int isalpha(int c) { return isupper(c) || islower(c); }
int isalnum(int c) { return isalpha(c) || isdigit(c); }
int isspace(int c) { return c == ' ' || (c >= 9 && c <= 13); }
int isxdigit(int c) { return isdigit(c) || (c >= 'a' && c <= 'f') || (c >= 'A' && c <= 'F'); }
int isprint(int c) { return c >= 32 && c <= 126; }
int isgraph(int c) { return c >= 33 && c <= 126; }
int ispunct(int c) { return isgraph(c) && !isalnum(c); }
int iscntrl(int c) { return (c >= 0 && c < 32) || c == 127; }
int isblank(int c) { return c == ' ' || c == '\t'; }
int toupper(int c) { return islower(c) ? c - 32 : c; }
int tolower(int c) { return isupper(c) ? c + 32 : c; }
int iswdigit(unsigned c) { return c >= '0' && c <= '9'; }
int abs(int x) { return x < 0 ? -x : x; }
long labs(long x) { return x < 0 ? -x : x; }

/* strto* : base 10/16/8/auto, ERANGE through errno */
#define ERANGE 34
static int digitOf(int c) {
  if (c >= '0' && c <= '9') return c - '0';
  if (c >= 'a' && c <= 'z') return c - 'a' + 10;
  if (c >= 'A' && c <= 'Z') return c - 'A' + 10;
  return 99;
}
static unsigned long long rt_strtoull_core(const char* s, char** end, int base, int* neg, int* any, int* ovf) {
  const char* p = s;
  while (isspace((unsigned char)*p)) ++p;
  *neg = 0; *any = 0; *ovf = 0;
  if (*p == '+' || *p == '-') { *neg = *p == '-'; ++p; }
  if ((base == 0 || base == 16) && p[0] == '0' && (p[1] == 'x' || p[1] == 'X') && digitOf((unsigned char)p[2]) < 16) { p += 2; base = 16; }
  if (base == 0) base = *p == '0' ? 8 : 10;
  unsigned long long acc = 0;
  for (;; ++p) {
    int d = digitOf((unsigned char)*p);
    if (d >= base) break;
    *any = 1;
    if (acc > (ULLONG_MAX - (unsigned)d) / (unsigned)base) { *ovf = 1; acc = ULLONG_MAX; }
    else if (!*ovf) acc = acc * (unsigned)base + (unsigned)d;
  }
  if (end) *end = (char*)(*any ? p : s);
  return acc;
}
long long strtoll(const char* s, char** end, int base) {
  int neg, any, ovf;
  unsigned long long v = rt_strtoull_core(s, end, base, &neg, &any, &ovf);
  if (!any) return 0;
  if (neg) {
    if (ovf || v > (unsigned long long)LLONG_MAX + 1ULL) { rt_errno = ERANGE; return LLONG_MIN; }
    return (long long)(0ULL - v);
  }
  if (ovf || v > (unsigned long long)LLONG_MAX) { rt_errno = ERANGE; return LLONG_MAX; }
  return (long long)v;
}
long strtol(const char* s, char** end, int base) { return (long)strtoll(s, end, base); }
unsigned long long strtoull(const char* s, char** end, int base) {
  int neg, any, ovf;
  unsigned long long v = rt_strtoull_core(s, end, base, &neg, &any, &ovf);
  if (!any) return 0;
  if (ovf) { rt_errno = ERANGE; return ULLONG_MAX; }
  return neg ? 0ULL - v : v;
}
unsigned long strtoul(const char* s, char** end, int base) { return (unsigned long)strtoull(s, end, base); }
long atol(const char* s) { return strtol(s, 0, 10); }
int atoi(const char* s) { return (int)strtol(s, 0, 10); }
long long atoll(const char* s) { return strtoll(s, 0, 10); }

struct rt_lconv { char* decimal_point; char* thousands_sep; char* grouping; char* rest[8]; char pad[32]; };
static struct rt_lconv rt_lc = {".", "", "", {"", "", "", "", "", "", "", ""}, {127, 127, 127, 127, 127, 127, 127, 127, 127, 127, 127, 127, 127, 127}};
struct rt_lconv* localeconv(void) { return &rt_lc; }
