/* Models of the libstdc++.so / libsupc++ externals: guard variables, the std exception classes
 * (objects, vtables, type_info), std::__throw_* helpers, std::random_device.  Written in C with the
 * Itanium-mangled names so that no C++ front-end magic interferes; layouts follow the ABI.          */
#include <stddef.h>
#include <stdint.h>

void* malloc(size_t);
void* __cxa_allocate_exception(size_t);
void __cxa_throw(void*, void*, void (*)(void*)) __attribute__((noreturn));
void _ZdlPv(void*);
size_t rt_strlen(const char*);

/* ---- static-local guards (single threaded) */
int __cxa_guard_acquire(uint64_t* g) { return *(volatile char*)g == 0; }
void __cxa_guard_release(uint64_t* g) { *(volatile char*)g = 1; }
void __cxa_guard_abort(uint64_t* g) { (void)g; }

/* ---- abi type_info classes: only their vtable addresses are used (by the engine) to classify */
const void* _ZTVN10__cxxabiv117__class_type_infoE[10];
const void* _ZTVN10__cxxabiv120__si_class_type_infoE[10];
const void* _ZTVN10__cxxabiv121__vmi_class_type_infoE[10];
const void* _ZTVN10__cxxabiv119__pointer_type_infoE[10];
const void* _ZTVN10__cxxabiv123__fundamental_type_infoE[10];
const void* _ZTVN10__cxxabiv116__enum_type_infoE[10];
const void* _ZTVN10__cxxabiv120__function_type_infoE[10];
const void* _ZTVN10__cxxabiv117__array_type_infoE[10];

struct ti_class { const void* vptr; const char* name; };
struct ti_si { const void* vptr; const char* name; const void* base; };
struct exc_obj { const void* vptr; char* msg; };

static char* rt_dup(const char* s) {
  if (!s) s = "";
  size_t n = rt_strlen(s);
  char* d = (char*)malloc(n + 1);
  for (size_t i = 0; i <= n; ++i) d[i] = s[i];
  return d;
}
static void rt_dtor(void* self) { (void)self; }
static void rt_dtor_deleting(void* self) { _ZdlPv(self); }
static const char* rt_what_msg(struct exc_obj* self) { return self->msg ? self->msg : ""; }
static void rt_exc_release(void* p) { (void)p; }

/* std::exception */
const struct ti_class _ZTISt9exception = {&_ZTVN10__cxxabiv117__class_type_infoE[2], "St9exception"};
static const char* rt_what_exception(void* self) { (void)self; return "std::exception"; }
const void* _ZTVSt9exception[5] = {0, &_ZTISt9exception, (void*)rt_dtor, (void*)rt_dtor_deleting, (void*)rt_what_exception};
void _ZNSt9exceptionD2Ev(void* self) { (void)self; }
void _ZNSt9exceptionD1Ev(void* self) { (void)self; }
void _ZNSt9exceptionD0Ev(void* self) { _ZdlPv(self); }
const char* _ZNKSt9exception4whatEv(void* self) { (void)self; return "std::exception"; }

#define NOMSG_CLASS(M, NAME, BASE, WHAT)                                                             \
  const struct ti_si _ZTI##M = {&_ZTVN10__cxxabiv120__si_class_type_infoE[2], NAME, &_ZTI##BASE};      \
  static const char* rt_what_##M(void* self) { (void)self; return WHAT; }                             \
  const void* _ZTV##M[5] = {0, &_ZTI##M, (void*)rt_dtor, (void*)rt_dtor_deleting, (void*)rt_what_##M}; \
  void _ZN##M##D2Ev(void* self) { (void)self; }                                                       \
  void _ZN##M##D1Ev(void* self) { (void)self; }                                                       \
  void _ZN##M##D0Ev(void* self) { _ZdlPv(self); }                                                     \
  static void rt_throw_##M(void) __attribute__((noreturn));                                           \
  static void rt_throw_##M(void) {                                                                    \
    struct exc_obj* e = (struct exc_obj*)__cxa_allocate_exception(sizeof(struct exc_obj));            \
    e->vptr = &_ZTV##M[2]; e->msg = 0;                                                                \
    __cxa_throw(e, (void*)&_ZTI##M, rt_exc_release);                                                  \
  }

NOMSG_CLASS(St9bad_alloc, "St9bad_alloc", St9exception, "std::bad_alloc")
NOMSG_CLASS(St8bad_cast, "St8bad_cast", St9exception, "std::bad_cast")
NOMSG_CLASS(St10bad_typeid, "St10bad_typeid", St9exception, "std::bad_typeid")
NOMSG_CLASS(St17bad_function_call, "St17bad_function_call", St9exception, "bad_function_call")
NOMSG_CLASS(St20bad_array_new_length, "St20bad_array_new_length", St9bad_alloc, "std::bad_array_new_length")
const char* _ZNKSt9bad_alloc4whatEv(void* s) { (void)s; return "std::bad_alloc"; }
const char* _ZNKSt8bad_cast4whatEv(void* s) { (void)s; return "std::bad_cast"; }
const char* _ZNKSt17bad_function_call4whatEv(void* s) { (void)s; return "bad_function_call"; }

void _ZSt17__throw_bad_allocv(void) { rt_throw_St9bad_alloc(); }
void _ZSt16__throw_bad_castv(void) { rt_throw_St8bad_cast(); }
void __cxa_bad_cast(void) { rt_throw_St8bad_cast(); }
void __cxa_bad_typeid(void) { rt_throw_St10bad_typeid(); }
void _ZSt25__throw_bad_function_callv(void) { rt_throw_St17bad_function_call(); }
void _ZSt28__throw_bad_array_new_lengthv(void) { rt_throw_St20bad_array_new_length(); }
void __cxa_throw_bad_array_new_length(void) { rt_throw_St20bad_array_new_length(); }

/* classes carrying a message: { vptr, msg } (same size as libstdc++'s { vptr, __cow_string }) */
#define MSG_CLASS(M, NAME, BASE)                                                                       \
  const struct ti_si _ZTI##M = {&_ZTVN10__cxxabiv120__si_class_type_infoE[2], NAME, &_ZTI##BASE};        \
  const void* _ZTV##M[5] = {0, &_ZTI##M, (void*)rt_dtor, (void*)rt_dtor_deleting, (void*)rt_what_msg};   \
  void _ZN##M##C1EPKc(struct exc_obj* self, const char* s) { self->vptr = &_ZTV##M[2]; self->msg = rt_dup(s); } \
  void _ZN##M##C2EPKc(struct exc_obj* self, const char* s) { self->vptr = &_ZTV##M[2]; self->msg = rt_dup(s); } \
  void _ZN##M##C1ERKNSt7__cxx1112basic_stringIcSt11char_traitsIcESaIcEEE(struct exc_obj* self, const char* const* str) { self->vptr = &_ZTV##M[2]; self->msg = rt_dup(*str); } \
  void _ZN##M##C2ERKNSt7__cxx1112basic_stringIcSt11char_traitsIcESaIcEEE(struct exc_obj* self, const char* const* str) { self->vptr = &_ZTV##M[2]; self->msg = rt_dup(*str); } \
  void _ZN##M##C1ERKS_(struct exc_obj* self, const struct exc_obj* o) { self->vptr = &_ZTV##M[2]; self->msg = rt_dup(o->msg); } \
  void _ZN##M##C2ERKS_(struct exc_obj* self, const struct exc_obj* o) { self->vptr = &_ZTV##M[2]; self->msg = rt_dup(o->msg); } \
  void _ZN##M##C1EOS_(struct exc_obj* self, struct exc_obj* o) { self->vptr = &_ZTV##M[2]; self->msg = rt_dup(o->msg); } \
  void _ZN##M##C2EOS_(struct exc_obj* self, struct exc_obj* o) { self->vptr = &_ZTV##M[2]; self->msg = rt_dup(o->msg); } \
  void _ZN##M##D2Ev(void* self) { (void)self; }                                                         \
  void _ZN##M##D1Ev(void* self) { (void)self; }                                                         \
  void _ZN##M##D0Ev(void* self) { _ZdlPv(self); }                                                       \
  const char* _ZNK##M##4whatEv(struct exc_obj* self) { return rt_what_msg(self); }                      \
  static void rt_throw_##M(const char* s) __attribute__((noreturn));                                    \
  static void rt_throw_##M(const char* s) {                                                             \
    struct exc_obj* e = (struct exc_obj*)__cxa_allocate_exception(sizeof(struct exc_obj));              \
    e->vptr = &_ZTV##M[2]; e->msg = rt_dup(s);                                                          \
    __cxa_throw(e, (void*)&_ZTI##M, rt_exc_release);                                                    \
  }

MSG_CLASS(St11logic_error, "St11logic_error", St9exception)
MSG_CLASS(St13runtime_error, "St13runtime_error", St9exception)
MSG_CLASS(St12out_of_range, "St12out_of_range", St11logic_error)
MSG_CLASS(St16invalid_argument, "St16invalid_argument", St11logic_error)
MSG_CLASS(St12length_error, "St12length_error", St11logic_error)
MSG_CLASS(St12domain_error, "St12domain_error", St11logic_error)
MSG_CLASS(St11range_error, "St11range_error", St13runtime_error)
MSG_CLASS(St14overflow_error, "St14overflow_error", St13runtime_error)
MSG_CLASS(St15underflow_error, "St15underflow_error", St13runtime_error)

void _ZSt19__throw_logic_errorPKc(const char* s) { rt_throw_St11logic_error(s); }
void _ZSt21__throw_runtime_errorPKc(const char* s) { rt_throw_St13runtime_error(s); }
void _ZSt20__throw_out_of_rangePKc(const char* s) { rt_throw_St12out_of_range(s); }
void _ZSt24__throw_out_of_range_fmtPKcz(const char* s, ...) { rt_throw_St12out_of_range(s); }
void _ZSt24__throw_invalid_argumentPKc(const char* s) { rt_throw_St16invalid_argument(s); }
void _ZSt20__throw_length_errorPKc(const char* s) { rt_throw_St12length_error(s); }
void _ZSt20__throw_domain_errorPKc(const char* s) { rt_throw_St12domain_error(s); }
void _ZSt19__throw_range_errorPKc(const char* s) { rt_throw_St11range_error(s); }
void _ZSt22__throw_overflow_errorPKc(const char* s) { rt_throw_St14overflow_error(s); }
void _ZSt23__throw_underflow_errorPKc(const char* s) { rt_throw_St15underflow_error(s); }

/* ---- std::random_device: a deterministic counter (the native replay build interposes the same) */
static unsigned rt_rd_counter;
void _ZNSt13random_device7_M_initERKNSt7__cxx1112basic_stringIcSt11char_traitsIcESaIcEEE(void* self, const void* token) { (void)self; (void)token; }
void _ZNSt13random_device7_M_finiEv(void* self) { (void)self; }
unsigned _ZNSt13random_device9_M_getvalEv(void* self) { (void)self; rt_rd_counter += 0x9E3779B9u; return rt_rd_counter; }

/* ---- iostream static init: nothing to do */
void _ZNSt8ios_base4InitC1Ev(void* self) { (void)self; }
void _ZNSt8ios_base4InitD1Ev(void* self) { (void)self; }

/* ---- type_info objects of fundamental types (std::any / any_cast compare them by address or name) */
#define FUND_TI(SYM, NAME) const struct ti_class SYM = {&_ZTVN10__cxxabiv123__fundamental_type_infoE[2], NAME};
FUND_TI(_ZTIi, "i") FUND_TI(_ZTIv, "v") FUND_TI(_ZTIb, "b") FUND_TI(_ZTIc, "c") FUND_TI(_ZTIl, "l") FUND_TI(_ZTIm, "m")
FUND_TI(_ZTIj, "j") FUND_TI(_ZTIs, "s") FUND_TI(_ZTIt, "t") FUND_TI(_ZTId, "d") FUND_TI(_ZTIf, "f") FUND_TI(_ZTIx, "x") FUND_TI(_ZTIy, "y")
FUND_TI(_ZTIh, "h") FUND_TI(_ZTIa, "a")
