// Native side of the harness API: replays one recorded counterexample (file named by VERIF_REPLAY)
// against the real code built with ASan+UBSan.  Also interposes std::random_device with the same
// deterministic counter the engine's runtime model uses, so entity identifiers are identical.
#include "sym.h"
#include <cstdio>
#include <cstdlib>
#include <cstring>
#include <exception>
#include <fstream>
#include <random>
#include <sstream>
#include <string>
#include <typeinfo>
#include <vector>
#include <cxxabi.h>

namespace {
struct Rec { std::string kind, name; unsigned w; std::vector<unsigned long long> vals; };
std::vector<Rec> recs;
size_t cursor = 0;
int failedAsserts = 0;
void load() {
  static bool done = false;
  if (done) return;
  done = true;
  const char* f = getenv("VERIF_REPLAY");
  if (!f) { fprintf(stderr, "REPLAY-ERROR no VERIF_REPLAY\n"); exit(90); }
  std::ifstream in(f);
  std::string line;
  while (std::getline(in, line)) {
    if (line.empty() || line[0] == '#') continue;
    std::istringstream is(line);
    Rec r; size_t n = 0;
    is >> r.kind >> r.name >> r.w >> n;
    for (size_t i = 0; i < n; ++i) { unsigned long long v = 0; is >> v; r.vals.push_back(v); }
    recs.push_back(r);
  }
}
Rec& next(const char* name, size_t need) {
  load();
  if (cursor >= recs.size() || recs[cursor].vals.size() < need) {
    fprintf(stderr, "REPLAY-DIVERGED at input %s (record %zu)\n", name, cursor);
    exit(91);
  }
  return recs[cursor++];
}
long long sx(unsigned long long v, unsigned w) { if (w >= 64) return (long long)v; unsigned long long m = 1ULL << (w - 1); v &= (1ULL << w) - 1; return (long long)((v ^ m) - m); }
}  // namespace

extern "C" {
void sym_bytes(void* p, size_t n, const char* name) { Rec& r = next(name, n); for (size_t i = 0; i < n; ++i) ((unsigned char*)p)[i] = (unsigned char)r.vals[i]; }
int32_t sym_i32(const char* name) { return (int32_t)sx(next(name, 1).vals[0], 32); }
int64_t sym_i64(const char* name) { return (int64_t)next(name, 1).vals[0]; }
uint8_t sym_u8(const char* name) { return (uint8_t)next(name, 1).vals[0]; }
uint16_t sym_u16(const char* name) { return (uint16_t)next(name, 1).vals[0]; }
bool sym_bool(const char* name) { return next(name, 1).vals[0] & 1; }
int32_t sym_range(int32_t, int32_t, const char* name) { return (int32_t)sx(next(name, 1).vals[0], 32); }
void sym_assume(bool c) { if (!c) { fprintf(stderr, "REPLAY-ASSUME-FALSE\n"); fflush(stderr); _Exit(92); } }
void sym_assert(bool c, const char* tag) { if (!c) { ++failedAsserts; fprintf(stderr, "REPLAY-ASSERT %s\n", tag); fflush(stderr); } }
void sym_reach(const char*) {}
void sym_observe_i64(const char* tag, int64_t v) { printf("OBS %s %lld\n", tag, (long long)v); }
void sym_observe_str(const char* tag, const void* p, size_t n) { printf("OBS %s ", tag); for (size_t i = 0; i < n; ++i) printf("%02x", ((const unsigned char*)p)[i]); printf("\n"); }
int32_t sym_concretize_i32(int32_t v) { return v; }
int64_t sym_concretize_i64(int64_t v) { return v; }
void sym_concretize_bytes(void*, size_t) {}
int sym_is_replay(void) { return 1; }
void sym_end_path(void) { fflush(stdout); fflush(stderr); _Exit(failedAsserts ? 10 : 0); }
void sym_note(const char* msg) { fprintf(stderr, "NOTE %s\n", msg); }
}

// same counter as rt/rt_cxx.c
static unsigned rd_counter;
void std::random_device::_M_init(const std::string&) {}
void std::random_device::_M_fini() {}
std::random_device::result_type std::random_device::_M_getval() { rd_counter += 0x9E3779B9u; return rd_counter; }

static void onTerminate() {
  fprintf(stderr, "REPLAY-TERMINATE\n");
  fflush(stderr);
  _Exit(12);
}
int main() {
  std::set_terminate(onTerminate);
  try {
    harness_main();
  } catch (const std::exception& e) {
    int st = 0;
    char* d = abi::__cxa_demangle(typeid(e).name(), nullptr, nullptr, &st);
    fprintf(stderr, "REPLAY-ESCAPED %s: %s\n", d ? d : typeid(e).name(), e.what());
    return 11;
  } catch (...) {
    fprintf(stderr, "REPLAY-ESCAPED unknown\n");
    return 11;
  }
  fflush(stdout);
  return failedAsserts ? 10 : 0;
}
