// Reference for the value-class audit of RSLang (C03): every (type-correct) expression is either a VALUE - something the
// interpreter can enumerate / compute - or a PROPERTY (props) - a set given only by a membership condition (Z, a power set,
// a product with such a factor, ...).  Written as a rule table over the node kinds, independently of ValueAuditor's visitor:
//   kind                                  operands that must be VALUE            class of the result
//   integer, empty set, radical           -                                      VALUE
//   Z                                     -                                      PROPS
//   global X                              (X must have a class)                  class of X
//   local                                 -                                      PROPS if bound to a PROPS argument, else VALUE
//   B(e)                                  - (e must be auditable)                PROPS
//   e1 x ... x en                         -                                      PROPS if some factor is PROPS, else VALUE
//   e1 U e2, e1 symdiff e2                -                                      VALUE iff both are VALUE
//   e1 n e2                               -                                      VALUE iff one of them is VALUE
//   e1 \ e2                               -                                      VALUE iff e1 is VALUE
//   + - *, not, & | => <=>, < <= > >=     - (operands auditable)                 VALUE
//   card bool debool red pr Pr            the operand                            VALUE
//   = !=, subset, not-subset              both                                   VALUE
//   in, not-in, subset-or-eq              the left one (right one auditable)     VALUE
//   tuple, enumeration, recursion         all                                    VALUE
//   quantifier                            the domain (body auditable)            VALUE
//   D{x in S | P}                         - (P and S auditable)                  class of S
//   I{e | blocks}                         e; domains of :in, right sides of :=   VALUE
//   Fi[p1..](e)                           - (all auditable)                      class of e
//   F[a1..an]                             - (F must have a class)                class of F if all arguments are VALUE, otherwise the
//                                                                                class of F's body with the PROPS arguments marked
//   X:==e, F:==[args] e                   -                                      class of e;  X::=e and X:== : VALUE
#pragma once
#include "ccl/rslang/SyntaxTree.h"
#include "ccl/rslang/ValueClass.hpp"
#include <vector>
#include <functional>
#include <optional>
#include <set>
#include <string>
namespace refvc {
using ccl::rslang::TokenID; using ccl::rslang::ValueClass; using ccl::rslang::SyntaxTree; using ccl::rslang::Index;
using Cursor = SyntaxTree::Cursor;
struct Env {
  std::function<ValueClass(const std::string&)> classOf;
  std::function<const SyntaxTree*(const std::string&)> astOf;
};
enum class Req { NONE, ALL, FIRST, SECOND };
// nullopt = the audit fails (an operand that must be a value is a property, or a global without class / tree)
inline std::optional<ValueClass> Audit(Cursor n, const Env& env, const std::set<std::string>& propLocals) {
  auto sub = [&](Index i) { return Audit(n.Child(i), env, propLocals); };
  auto all = [&](Req req, std::optional<ValueClass> result) -> std::optional<ValueClass> {      // audit children left to right
    std::optional<ValueClass> last;
    for (Index i = 0; i < n.ChildrenCount(); ++i) {
      last = sub(i);
      if (!last.has_value()) return std::nullopt;
      const bool must = req == Req::ALL || (req == Req::FIRST && i == 0) || (req == Req::SECOND && i == 1);
      if (must && *last != ValueClass::value) return std::nullopt;
    }
    return result.has_value() ? result : last;
  };
  const auto V = std::optional<ValueClass>(ValueClass::value), P = std::optional<ValueClass>(ValueClass::props);
  switch (n->id) {
  case TokenID::LIT_INTEGER: case TokenID::LIT_EMPTYSET: case TokenID::ID_RADICAL: return V;
  case TokenID::LIT_INTSET: return P;
  case TokenID::ID_LOCAL: return propLocals.count(n->data.ToText()) ? P : V;
  case TokenID::ID_GLOBAL: case TokenID::ID_FUNCTION: case TokenID::ID_PREDICATE: {
    const auto c = env.classOf(n->data.ToText());
    if (c == ValueClass::invalid) return std::nullopt;
    return c;
  }
  case TokenID::BOOLEAN: return all(Req::NONE, P);
  case TokenID::DECART: {
    bool props = false;
    for (Index i = 0; i < n.ChildrenCount(); ++i) { const auto c = sub(i); if (!c.has_value()) return std::nullopt; if (*c == ValueClass::props) props = true; }
    return props ? P : V;
  }
  case TokenID::UNION: case TokenID::SYMMINUS: case TokenID::INTERSECTION: case TokenID::SET_MINUS: {
    const auto a = sub(0); if (!a.has_value()) return std::nullopt;
    const auto b = sub(1); if (!b.has_value()) return std::nullopt;
    const bool va = *a == ValueClass::value, vb = *b == ValueClass::value;
    const bool value = n->id == TokenID::INTERSECTION ? (va || vb) : n->id == TokenID::SET_MINUS ? va : (va && vb);
    return value ? V : P;
  }
  case TokenID::PLUS: case TokenID::MINUS: case TokenID::MULTIPLY: case TokenID::NOT: case TokenID::AND: case TokenID::OR: case TokenID::IMPLICATION:
  case TokenID::EQUIVALENT: case TokenID::GREATER: case TokenID::LESSER: case TokenID::GREATER_OR_EQ: case TokenID::LESSER_OR_EQ:
  case TokenID::NT_TUPLE_DECL: case TokenID::NT_ENUM_DECL:
    return all(Req::NONE, V);
  case TokenID::CARD: case TokenID::BOOL: case TokenID::DEBOOL: case TokenID::REDUCE: case TokenID::BIGPR: case TokenID::SMALLPR:
    return all(Req::FIRST, V);
  case TokenID::EQUAL: case TokenID::NOTEQUAL: case TokenID::SUBSET: case TokenID::NOTSUBSET: case TokenID::NT_TUPLE: case TokenID::NT_ENUMERATION:
  case TokenID::NT_RECURSIVE_FULL: case TokenID::NT_RECURSIVE_SHORT:
    return all(Req::ALL, V);
  case TokenID::IN: case TokenID::NOTIN: case TokenID::SUBSET_OR_EQ: {
    // the library audits the right operand first; the verdict does not depend on the order
    const auto b = sub(1); if (!b.has_value()) return std::nullopt;
    const auto a = sub(0); if (!a.has_value() || *a != ValueClass::value) return std::nullopt;
    return V;
  }
  case TokenID::ITERATE: case TokenID::ASSIGN: {
    const auto b = sub(1); if (!b.has_value() || *b != ValueClass::value) return std::nullopt;
    return V;
  }
  case TokenID::FORALL: case TokenID::EXISTS: {
    const auto d = sub(1); if (!d.has_value() || *d != ValueClass::value) return std::nullopt;
    return sub(2).has_value() ? V : std::nullopt;     // the body of a quantifier is logical: VALUE
  }
  case TokenID::NT_DECLARATIVE_EXPR: {
    if (!sub(2).has_value()) return std::nullopt;
    return sub(1);
  }
  case TokenID::NT_IMPERATIVE_EXPR: {
    for (Index i = 1; i < n.ChildrenCount(); ++i) if (!sub(i).has_value()) return std::nullopt;
    const auto e = sub(0); if (!e.has_value() || *e != ValueClass::value) return std::nullopt;
    return V;
  }
  case TokenID::FILTER: return all(Req::NONE, std::nullopt);
  case TokenID::NT_ARGUMENTS: case TokenID::NT_ARG_DECL: case TokenID::NT_FUNC_DEFINITION: return all(Req::NONE, std::nullopt);
  case TokenID::NT_FUNC_CALL: {
    const std::string name = n.Child(0)->data.ToText();
    const auto fc = env.classOf(name);
    if (fc == ValueClass::invalid) return std::nullopt;
    bool allValues = true; std::vector<ValueClass> args;
    for (Index i = 1; i < n.ChildrenCount(); ++i) { const auto c = sub(i); if (!c.has_value()) return std::nullopt; args.push_back(*c); if (*c != ValueClass::value) allValues = false; }
    if (allValues) return fc;
    const SyntaxTree* ast = env.astOf(name);
    if (ast == nullptr) return std::nullopt;
    const auto decls = ast->Root().Child(1).Child(0);
    std::set<std::string> props;
    for (Index i = 0; i < decls.ChildrenCount() && (size_t)i < args.size(); ++i) if (args[(size_t)i] == ValueClass::props) props.insert(decls.Child(i).Child(0)->data.ToText());
    return Audit(ast->Root().Child(1).Child(1), env, props);
  }
  case TokenID::PUNC_DEFINE: case TokenID::PUNC_STRUCT: {
    if (n->id == TokenID::PUNC_STRUCT) return sub(1).has_value() ? V : std::nullopt;
    if (n.ChildrenCount() == 1) return V;
    return sub(1);
  }
  default: return std::nullopt;
  }
}
inline std::optional<ValueClass> Audit(const SyntaxTree& tree, const Env& env) { return Audit(tree.Root(), env, {}); }
}  // namespace refvc
