// Reference parser (oracle) for the RSLang expression language.
//
// Independent hand-written recursive-descent / precedence-climbing parser. It is derived from the
// grammar in /repo/ccl/rslang/src/RSParserImpl.y read as a *language definition* (productions,
// %left/%right declarations, semantic actions of src/RSParser.cpp); it shares no code and no
// tables with the Bison-generated LALR(1) parser.
//
// ---------------------------------------------------------------------------------------------
// The language, as this file reads it
// ---------------------------------------------------------------------------------------------
//  expression      := global_name (':==' | '::=') no_decl | global_name ':=='  | no_decl
//  no_decl         := '[' LOCAL '∈' set { ',' LOCAL '∈' set } ']' logic_or_set  | logic_or_set
//  logic_or_set    := a logic formula that is NOT merely a parenthesised formula, or any set expr
//  logic formula   := unit { (⇔ | ⇒ | ∨ | &) unit }      precedence ⇔ < ⇒ < ∨ < &, all left-assoc
//  unit            := '¬' nb | (∀|∃) varpack '∈' set nb | P1'[' set,.. ']' | set PRED set
//                   | variable (':∈' | ':=') set | '(' formula ')'
//       where the formula in '(' formula ')' must be a predicate or a binary formula (so that
//       "(¬A)", "((A))", "(∀x∈X A)", "(P1[x])" are all syntax errors), and
//       nb (operand of ¬ and body of a quantifier) is a unit, never an unparenthesised binary.
//  set             := prim { (+|-|*|×|∪|∩|\|∆) prim }
//       precedence  {+,-} < {*} < {×,∪,∩,\,∆}  (the five set operators share ONE level), left-assoc
//  prim            := literal | identifier | F1'[' set,.. ']' | txt '(' set ')' | ℬ..ℬ '(' set ')'
//                   | Fi..'[' set,.. ']' '(' set ')' | '{' set,.. '}' | '(' set ',' set,.. ')'
//                   | '(' binary-set-expr ')'        -- ONLY binary expressions may be bracketed:
//                                                       "(X1)", "(ℬ(X1))", "({a})" are errors
//                   | '{' LOCAL '∈' set '|' logic '}' | D'{' variable '∈' set '|' logic '}'
//                   | R'{' variable ':=' set '|' [logic '|'] set '}'
//                   | I'{' set '|' logic { ';' logic } '}'
//       ("logic" inside the constructors again excludes a bare parenthesised formula)
//  variable        := LOCAL | '(' variable ',' variable,.. ')'       varpack := variable,..
//  Post-checks: ':∈' / ':=' nodes are legal only as direct children of an I{...} node.
//
// Tree shape: × chains flatten into one n-ary node unless the left operand was bracketed; no
// other operator flattens; brackets leave no node.
//
// ---------------------------------------------------------------------------------------------
// Source ranges (finding from RSParser.cpp)
// ---------------------------------------------------------------------------------------------
// Every node has range [start of its first token, finish of its last token) -- binary nodes span
// from the left operand's start to the right operand's finish, prefix operators from the operator
// to the operand's finish, bracketed constructs from the opening token to the closing one; lists
// (ARGS, ENUM_DECLARATION) from first to last element; "X1:==" spans name..':=='.
// Parentheses: RemoveBrackets() widens the range of the bracketed node to include its brackets
// and wraps it into a temporary PUNC_PL node (dropped when the final tree is built). If the
// result is bracketed AGAIN ("((X1∪X2))"), only the temporary wrapper is widened, not the real
// node. Hence a node's own range includes exactly ONE (the innermost) pair of its redundant
// parentheses, while its parent's range is computed from the outermost pair. In this file
// Res::outer is the range including all brackets, Node::pos the range the final tree reports.
//
// Restrictions: header-only, no exceptions, no static state, only simple loops/recursion
// (recursion depth is bounded by the number of tokens).
#pragma once

#include <algorithm>
#include <cstdint>
#include <optional>
#include <string>
#include <utility>
#include <vector>

#include "ccl/rslang/RSToken.h"
#include "ccl/rslang/SyntaxTree.h"

namespace ref {

using ccl::rslang::Token;
using ccl::rslang::TokenID;

struct Range {
  int32_t start{ 0 };
  int32_t finish{ 0 };
  bool operator==(const Range& rhs) const { return start == rhs.start && finish == rhs.finish; }
  bool operator!=(const Range& rhs) const { return !(*this == rhs); }
};

//! Syntax tree node: token id + payload + source range + children
struct Node {
  TokenID id{ TokenID::INTERRUPT };
  Range pos{};                      // range as reported by the real parser for this node
  std::string text{};               // identifiers
  int32_t value{ 0 };               // LIT_INTEGER
  std::vector<int16_t> indices{};   // pr / Pr / Fi
  std::vector<Node> children{};
};

namespace detail {

inline std::string IntToString(int32_t value) {
  int64_t v = value;
  const bool negative = v < 0;
  if (negative) {
    v = -v;
  }
  std::string digits{};
  do {
    digits.push_back(static_cast<char>('0' + static_cast<int>(v % 10)));
    v /= 10;
  } while (v != 0);
  if (negative) {
    digits.push_back('-');
  }
  std::reverse(digits.begin(), digits.end());
  return digits;
}

//! Text of operator / punctuation / non-terminal ids in MATH syntax (Token::Str)
inline const char* FixedText(TokenID id) {
  switch (id) {
  default: return "UNKNOWN TOKEN";
  case TokenID::INTERRUPT: return "INTERRUPT"; case TokenID::END: return "END";
  case TokenID::ID_LOCAL: return "LOCAL"; case TokenID::ID_GLOBAL: return "GLOBAL";
  case TokenID::ID_FUNCTION: return "FUNCTION"; case TokenID::ID_PREDICATE: return "PREDICATE";
  case TokenID::ID_RADICAL: return "RADICAL"; case TokenID::LIT_INTEGER: return "INT";
  case TokenID::LIT_INTSET: return "Z"; case TokenID::LIT_EMPTYSET: return "\xE2\x88\x85";
  case TokenID::PLUS: return "+"; case TokenID::MINUS: return "-"; case TokenID::MULTIPLY: return "*";
  case TokenID::GREATER: return ">"; case TokenID::LESSER: return "<";
  case TokenID::GREATER_OR_EQ: return "\xE2\x89\xA5"; case TokenID::LESSER_OR_EQ: return "\xE2\x89\xA4";
  case TokenID::EQUAL: return "="; case TokenID::NOTEQUAL: return "\xE2\x89\xA0";
  case TokenID::FORALL: return "\xE2\x88\x80"; case TokenID::EXISTS: return "\xE2\x88\x83";
  case TokenID::NOT: return "\xC2\xAC"; case TokenID::AND: return "&"; case TokenID::OR: return "\xE2\x88\xA8";
  case TokenID::IMPLICATION: return "\xE2\x87\x92"; case TokenID::EQUIVALENT: return "\xE2\x87\x94";
  case TokenID::ASSIGN: return ":="; case TokenID::ITERATE: return ":\xE2\x88\x88";
  case TokenID::IN: return "\xE2\x88\x88"; case TokenID::NOTIN: return "\xE2\x88\x89";
  case TokenID::SUBSET: return "\xE2\x8A\x82"; case TokenID::SUBSET_OR_EQ: return "\xE2\x8A\x86";
  case TokenID::NOTSUBSET: return "\xE2\x8A\x84"; case TokenID::UNION: return "\xE2\x88\xAA";
  case TokenID::INTERSECTION: return "\xE2\x88\xA9"; case TokenID::SET_MINUS: return "\\";
  case TokenID::SYMMINUS: return "\xE2\x88\x86"; case TokenID::DECART: return "\xC3\x97";
  case TokenID::BOOLEAN: return "\xE2\x84\xAC"; case TokenID::BIGPR: return "Pr";
  case TokenID::SMALLPR: return "pr"; case TokenID::FILTER: return "Fi"; case TokenID::CARD: return "card";
  case TokenID::BOOL: return "bool"; case TokenID::DEBOOL: return "debool"; case TokenID::REDUCE: return "red";
  case TokenID::DECLARATIVE: return "D"; case TokenID::RECURSIVE: return "R";
  case TokenID::IMPERATIVE: return "I"; case TokenID::PUNC_DEFINE: return ":==";
  case TokenID::PUNC_STRUCT: return "::="; case TokenID::PUNC_PL: return "(";
  case TokenID::PUNC_PR: return ")"; case TokenID::PUNC_CL: return "{"; case TokenID::PUNC_CR: return "}";
  case TokenID::PUNC_SL: return "["; case TokenID::PUNC_SR: return "]"; case TokenID::PUNC_BAR: return "|";
  case TokenID::PUNC_COMMA: return ","; case TokenID::PUNC_SEMICOLON: return ";";
  case TokenID::NT_TUPLE: return "TUPLE"; case TokenID::NT_ENUMERATION: return "SET";
  case TokenID::NT_ENUM_DECL: return "ENUM_DECLARATION";
  case TokenID::NT_TUPLE_DECL: return "TUPLE_DECLARATION"; case TokenID::NT_ARG_DECL: return "ARG";
  case TokenID::NT_FUNC_CALL: return "CALL"; case TokenID::NT_ARGUMENTS: return "ARGS";
  case TokenID::NT_FUNC_DEFINITION: return "FUNCTION_DEFINITION";
  case TokenID::NT_DECLARATIVE_EXPR: return "DECLARATIVE";
  case TokenID::NT_IMPERATIVE_EXPR: return "IMPERATIVE"; case TokenID::NT_RECURSIVE_FULL: return "REC_FULL";
  case TokenID::NT_RECURSIVE_SHORT: return "REC_SHORT";
  }
}

//! Token::ToString(Syntax::MATH) for a tree node
inline std::string NodeText(const Node& node) {
  switch (node.id) {
  default:
    return FixedText(node.id);
  case TokenID::ID_LOCAL: case TokenID::ID_GLOBAL: case TokenID::ID_FUNCTION: case TokenID::ID_PREDICATE: case TokenID::ID_RADICAL:
    return node.text;
  case TokenID::LIT_INTEGER:
    return IntToString(node.value);
  case TokenID::BIGPR: case TokenID::SMALLPR: case TokenID::FILTER: {
    // NOTE: the real Token::ToString dereferences begin() of the index vector unconditionally,
    // i.e. has undefined behaviour for an empty index list ("pr0"); here: just the prefix.
    std::string result = FixedText(node.id);
    for (size_t k = 0; k < node.indices.size(); ++k) {
      if (k != 0) {
        result.push_back(',');
      }
      result += IntToString(node.indices[k]);
    }
    return result;
  }
  }
}

inline void Dump(const Node& node, std::string& out) {
  out.push_back('[');
  out += NodeText(node);
  for (const auto& child : node.children) {
    Dump(child, out);
  }
  out.push_back(']');
}

//! Syntactic category of a parsed phrase
enum class Cat : uint8_t {
  Fail,
  SetLocal,     // a single local identifier (may also serve as a declared variable)
  SetTuple,     // (a, b, ...) (may also serve as a declared variable if built from locals only)
  SetBinary,    // binary set/arithmetic expression, possibly in redundant parentheses
  SetOther,     // any other set expression
  LogicPred,    // elementary predicate  s1 ∈ s2,  a :∈ s, ...
  LogicUnary,   // ¬A, quantified formula, P1[...]
  LogicBinary,  // A & B, ...
  LogicPar      // ( predicate or binary formula )
};

struct Res {
  Cat cat{ Cat::Fail };
  bool bracketed{ false };  // phrase is "( ... )" with redundant parentheses
  Range outer{};            // range including ALL redundant parentheses
  Node node{};
  [[nodiscard]] bool Ok() const { return cat != Cat::Fail; }
  [[nodiscard]] bool IsSet() const {
    return cat == Cat::SetLocal || cat == Cat::SetTuple || cat == Cat::SetBinary || cat == Cat::SetOther;
  }
  [[nodiscard]] bool IsLogic() const {
    return cat == Cat::LogicPred || cat == Cat::LogicUnary || cat == Cat::LogicBinary || cat == Cat::LogicPar;
  }
  // "logic" of the grammar: everything except a bare parenthesised formula
  [[nodiscard]] bool IsOpenLogic() const { return IsLogic() && cat != Cat::LogicPar; }
  // "logic_no_binary" of the grammar
  [[nodiscard]] bool IsClosedLogic() const { return IsLogic() && cat != Cat::LogicBinary; }
};

inline int SetPrecedence(TokenID id) {
  switch (id) {
  default: return 0;
  case TokenID::PLUS: case TokenID::MINUS: return 1;
  case TokenID::MULTIPLY: return 2;
  case TokenID::DECART: case TokenID::UNION: case TokenID::INTERSECTION: case TokenID::SET_MINUS: case TokenID::SYMMINUS: return 3;
  }
}

inline int LogicPrecedence(TokenID id) {
  switch (id) {
  default: return 0;
  case TokenID::EQUIVALENT: return 1;
  case TokenID::IMPLICATION: return 2;
  case TokenID::OR: return 3;
  case TokenID::AND: return 4;
  }
}

inline bool IsPredicateSymbol(TokenID id) {
  switch (id) {
  default: return false;
  case TokenID::IN: case TokenID::NOTIN: case TokenID::SUBSET: case TokenID::SUBSET_OR_EQ: case TokenID::NOTSUBSET:
  case TokenID::NOTEQUAL: case TokenID::EQUAL:
  case TokenID::GREATER: case TokenID::LESSER: case TokenID::GREATER_OR_EQ: case TokenID::LESSER_OR_EQ: return true;
  }
}

inline bool IsGlobalName(TokenID id) {
  return id == TokenID::ID_GLOBAL || id == TokenID::ID_FUNCTION || id == TokenID::ID_PREDICATE;
}

class Parser {
  const std::vector<Token>& tokens;
  size_t count{ 0 };   // tokens before the first END
  size_t cursor{ 0 };

public:
  explicit Parser(const std::vector<Token>& input) : tokens{ input } {
    while (count < tokens.size() && tokens[count].id != TokenID::END) {
      ++count;
    }
  }

  std::optional<Node> Run() {
    // An INTERRUPT token (unknown symbol) is a critical error wherever it occurs
    for (size_t k = 0; k < count; ++k) {
      if (tokens[k].id == TokenID::INTERRUPT) { return std::nullopt; }
    }
    if (count == 0) { return std::nullopt; }
    Node root{};
    if (count >= 2 && IsGlobalName(Peek()) &&
        (Peek(1) == TokenID::PUNC_DEFINE || Peek(1) == TokenID::PUNC_STRUCT)) {
      Node name = Leaf(tokens[0]);
      root = Leaf(tokens[1]);
      cursor = 2;
      if (count == 2) {
        if (root.id != TokenID::PUNC_DEFINE) { return std::nullopt; }
        root.pos = Range{ name.pos.start, root.pos.finish };
        root.children.push_back(std::move(name));
      } else {
        Res body = NoDeclaration();
        if (!body.Ok()) { return std::nullopt; }
        root.pos = Range{ name.pos.start, body.outer.finish };
        root.children.push_back(std::move(name));
        root.children.push_back(std::move(body.node));
      }
    } else {
      Res body = NoDeclaration();
      if (!body.Ok()) { return std::nullopt; }
      root = std::move(body.node);
    }
    if (cursor != count) { return std::nullopt; }
    if (root.id == TokenID::ASSIGN || root.id == TokenID::ITERATE || !ImperativeOperatorsOk(root)) {
      return std::nullopt;
    }
    return root;
  }

private:
  // ---------------------------------------------------------------- token access
  [[nodiscard]] TokenID Peek(size_t ahead = 0) const {
    return cursor + ahead < count ? tokens[cursor + ahead].id : TokenID::END;
  }
  [[nodiscard]] static Range PosOf(const Token& token) {
    return Range{ token.pos.start, token.pos.finish };
  }
  [[nodiscard]] static Node Leaf(const Token& token) {
    Node node{};
    node.id = token.id;
    node.pos = PosOf(token);
    if (token.data.IsText()) {
      node.text = token.data.ToText();
    } else if (token.data.IsInt()) {
      node.value = token.data.ToInt();
    } else if (token.data.IsTuple()) {
      node.indices = token.data.ToTuple();
    }
    return node;
  }
  [[nodiscard]] static Node Inner(TokenID id, Range pos) {
    Node node{};
    node.id = id;
    node.pos = pos;
    return node;
  }
  //! Consume token of given kind; on success store its range
  bool Expect(TokenID id, Range* where = nullptr) {
    if (Peek() != id) { return false; }
    if (where != nullptr) {
      *where = PosOf(tokens[cursor]);
    }
    ++cursor;
    return true;
  }
  [[nodiscard]] static Res Make(Cat cat, Node node) {
    Res result{};
    result.cat = cat;
    result.outer = node.pos;
    result.node = std::move(node);
    return result;
  }

  // ---------------------------------------------------------------- post-check
  //! ':=' and ':∈' are allowed only directly inside I{...}
  [[nodiscard]] static bool ImperativeOperatorsOk(const Node& node) {
    for (const auto& child : node.children) {
      if ((child.id == TokenID::ASSIGN || child.id == TokenID::ITERATE) &&
          node.id != TokenID::NT_IMPERATIVE_EXPR) {
        return false;
      }
      if (!ImperativeOperatorsOk(child)) { return false; }
    }
    return true;
  }

  // ---------------------------------------------------------------- top level
  Res NoDeclaration() {
    if (Peek() != TokenID::PUNC_SL) {
      return OpenLogicOrSet();
    }
    const Range open = PosOf(tokens[cursor]);
    ++cursor;
    Node args = Inner(TokenID::NT_ARGUMENTS, Range{});
    for (;;) {
      if (Peek() != TokenID::ID_LOCAL || Peek(1) != TokenID::IN) { return Res{}; }
      Node name = Leaf(tokens[cursor]);
      cursor += 2;
      Res domain = Set();
      if (!domain.Ok()) { return Res{}; }
      Node decl = Inner(TokenID::NT_ARG_DECL, Range{ name.pos.start, domain.outer.finish });
      decl.children.push_back(std::move(name));
      decl.children.push_back(std::move(domain.node));
      args.children.push_back(std::move(decl));
      if (!Expect(TokenID::PUNC_COMMA)) {
        break;
      }
    }
    args.pos = Range{ args.children.front().pos.start, args.children.back().pos.finish };
    if (!Expect(TokenID::PUNC_SR)) { return Res{}; }
    Res body = OpenLogicOrSet();
    if (!body.Ok()) { return Res{}; }
    Node def = Inner(TokenID::NT_FUNC_DEFINITION, Range{ open.start, body.outer.finish });
    def.children.push_back(std::move(args));
    def.children.push_back(std::move(body.node));
    return Make(Cat::SetOther, std::move(def));
  }

  //! logic_or_setexpr: any set expression or any formula except a bare "( formula )"
  Res OpenLogicOrSet() {
    Res result = Formula(1);
    if (!result.Ok() || result.cat == Cat::LogicPar) { return Res{}; }
    return result;
  }
  //! formula that is not a bare "( formula )"
  Res OpenLogic() {
    Res result = Formula(1);
    if (!result.IsOpenLogic()) { return Res{}; }
    return result;
  }

  // ---------------------------------------------------------------- logic
  //! Binary formulae by precedence climbing; returns a set expression untouched if no connective follows
  Res Formula(int minPrecedence) {
    Res lhs = Unit();
    if (!lhs.Ok()) { return lhs; }
    for (;;) {
      const int precedence = LogicPrecedence(Peek());
      if (precedence == 0 || precedence < minPrecedence) { return lhs; }
      if (!lhs.IsLogic()) { return Res{}; }
      Node op = Leaf(tokens[cursor]);
      ++cursor;
      Res rhs = Formula(precedence + 1);  // left associative
      if (!rhs.IsLogic()) { return Res{}; }
      op.pos = Range{ lhs.outer.start, rhs.outer.finish };
      op.children.push_back(std::move(lhs.node));
      op.children.push_back(std::move(rhs.node));
      lhs = Make(Cat::LogicBinary, std::move(op));
    }
  }

  //! Negation, quantifier, elementary predicate, or a set expression when no predicate symbol follows
  Res Unit() {
    const TokenID head = Peek();
    if (head == TokenID::NOT) {
      Node op = Leaf(tokens[cursor]);
      ++cursor;
      Res operand = Unit();
      if (!operand.IsClosedLogic()) { return Res{}; }
      op.pos.finish = operand.outer.finish;
      op.children.push_back(std::move(operand.node));
      return Make(Cat::LogicUnary, std::move(op));
    }
    if (head == TokenID::FORALL || head == TokenID::EXISTS) {
      Node quant = Leaf(tokens[cursor]);
      ++cursor;
      std::optional<Node> declaration = VariablePack();
      if (!declaration.has_value() || !Expect(TokenID::IN)) { return Res{}; }
      Res domain = Set();
      if (!domain.Ok()) { return Res{}; }
      Res body = Unit();
      if (!body.IsClosedLogic()) { return Res{}; }
      quant.pos.finish = body.outer.finish;
      quant.children.push_back(std::move(declaration.value()));
      quant.children.push_back(std::move(domain.node));
      quant.children.push_back(std::move(body.node));
      return Make(Cat::LogicUnary, std::move(quant));
    }

    Res lhs = SetExpression(1);
    if (!lhs.Ok()) { return lhs; }
    const TokenID next = Peek();
    const bool imperative = next == TokenID::ITERATE || next == TokenID::ASSIGN;
    if (!imperative && !IsPredicateSymbol(next)) { return lhs; }
    if (imperative) {
      // left side must be a variable: local or tuple of (tuples of) locals
      if (lhs.cat == Cat::SetTuple) {
        if (!TupleToDeclaration(lhs.node)) { return Res{}; }
      } else if (lhs.cat != Cat::SetLocal) {
        return Res{};
      }
    } else if (!lhs.IsSet()) {
      return Res{};
    }
    Node op = Leaf(tokens[cursor]);
    ++cursor;
    Res rhs = Set();
    if (!rhs.Ok()) { return Res{}; }
    op.pos = Range{ lhs.outer.start, rhs.outer.finish };
    op.children.push_back(std::move(lhs.node));
    op.children.push_back(std::move(rhs.node));
    return Make(Cat::LogicPred, std::move(op));
  }

  // ---------------------------------------------------------------- variables
  [[nodiscard]] static bool TupleToDeclaration(Node& node) {
    if (node.id == TokenID::NT_TUPLE) {
      node.id = TokenID::NT_TUPLE_DECL;
    } else if (node.id != TokenID::ID_LOCAL) {
      return false;
    }
    for (auto& child : node.children) {
      if (!TupleToDeclaration(child)) { return false; }
    }
    return true;
  }

  //! variable := LOCAL | '(' variable ',' variable { ',' variable } ')'
  std::optional<Node> Variable() {
    if (Peek() == TokenID::ID_LOCAL) {
      Node node = Leaf(tokens[cursor]);
      ++cursor;
      return node;
    }
    Range open{};
    if (!Expect(TokenID::PUNC_PL, &open)) { return std::nullopt; }
    Node tuple = Inner(TokenID::NT_TUPLE_DECL, open);
    for (;;) {
      std::optional<Node> component = Variable();
      if (!component.has_value()) { return std::nullopt; }
      tuple.children.push_back(std::move(component.value()));
      if (!Expect(TokenID::PUNC_COMMA)) {
        break;
      }
    }
    Range close{};
    if (tuple.children.size() < 2 || !Expect(TokenID::PUNC_PR, &close)) { return std::nullopt; }
    tuple.pos.finish = close.finish;
    return tuple;
  }

  std::optional<Node> VariablePack() {
    std::optional<Node> first = Variable();
    if (!first.has_value() || Peek() != TokenID::PUNC_COMMA) { return first; }
    Node pack = Inner(TokenID::NT_ENUM_DECL, first.value().pos);
    pack.children.push_back(std::move(first.value()));
    while (Expect(TokenID::PUNC_COMMA)) {
      std::optional<Node> item = Variable();
      if (!item.has_value()) { return std::nullopt; }
      pack.pos.finish = item.value().pos.finish;
      pack.children.push_back(std::move(item.value()));
    }
    return pack;
  }

  // ---------------------------------------------------------------- set expressions
  //! Complete set expression (rejects formulae)
  Res Set() {
    Res result = SetExpression(1);
    if (!result.IsSet()) { return Res{}; }
    return result;
  }

  //! set_1 ',' set_2 ',' ... appended to parent's children
  bool SetList(Node& parent) {
    for (;;) {
      Res item = Set();
      if (!item.Ok()) { return false; }
      parent.children.push_back(std::move(item.node));
      if (!Expect(TokenID::PUNC_COMMA)) {
        return true;
      }
    }
  }

  //! Binary set / arithmetic operators by precedence climbing.
  //! May return a parenthesised formula (LogicPar) if that is what the primary turned out to be.
  Res SetExpression(int minPrecedence) {
    Res lhs = Primary();
    if (!lhs.Ok()) { return lhs; }
    for (;;) {
      const int precedence = SetPrecedence(Peek());
      if (precedence == 0 || precedence < minPrecedence) { return lhs; }
      if (!lhs.IsSet()) { return Res{}; }
      Node op = Leaf(tokens[cursor]);
      ++cursor;
      Res rhs = SetExpression(precedence + 1);  // left associative
      if (!rhs.IsSet()) { return Res{}; }
      if (op.id == TokenID::DECART && lhs.node.id == TokenID::DECART && !lhs.bracketed) {
        // a×b×c: extend existing product
        lhs.node.pos.finish = rhs.outer.finish;
        lhs.node.children.push_back(std::move(rhs.node));
        lhs.outer = lhs.node.pos;
      } else {
        op.pos = Range{ lhs.outer.start, rhs.outer.finish };
        op.children.push_back(std::move(lhs.node));
        op.children.push_back(std::move(rhs.node));
        lhs = Make(Cat::SetBinary, std::move(op));
      }
    }
  }

  //! name '(' set ')'   -- name token already consumed and given as node
  Res Operator(Node op) {
    Range close{};
    if (!Expect(TokenID::PUNC_PL)) { return Res{}; }
    Res argument = Set();
    if (!argument.Ok() || !Expect(TokenID::PUNC_PR, &close)) { return Res{}; }
    op.pos.finish = close.finish;
    op.children.push_back(std::move(argument.node));
    return Make(Cat::SetOther, std::move(op));
  }

  //! ℬ ... ℬ '(' set ')'
  Res Boolean() {
    Node op = Leaf(tokens[cursor]);
    ++cursor;
    if (Peek() != TokenID::BOOLEAN) {
      return Operator(std::move(op));
    }
    Res inner = Boolean();
    if (!inner.Ok()) { return Res{}; }
    op.pos.finish = inner.node.pos.finish;
    op.children.push_back(std::move(inner.node));
    return Make(Cat::SetOther, std::move(op));
  }

  //! F1 '[' set,.. ']' or P1 '[' set,.. ']'
  Res Call() {
    Node name = Leaf(tokens[cursor]);
    const bool predicate = name.id == TokenID::ID_PREDICATE;
    cursor += 2;
    Node call = Inner(TokenID::NT_FUNC_CALL, name.pos);
    call.children.push_back(std::move(name));
    Range close{};
    if (!SetList(call) || !Expect(TokenID::PUNC_SR, &close)) { return Res{}; }
    call.pos.finish = close.finish;
    return Make(predicate ? Cat::LogicUnary : Cat::SetOther, std::move(call));
  }

  //! Fi1,2 '[' set,.. ']' '(' set ')'
  Res Filter() {
    Node filter = Leaf(tokens[cursor]);
    ++cursor;
    Range close{};
    if (!Expect(TokenID::PUNC_SL) || !SetList(filter) ||
        !Expect(TokenID::PUNC_SR) || !Expect(TokenID::PUNC_PL)) {
      return Res{};
    }
    Res argument = Set();
    if (!argument.Ok() || !Expect(TokenID::PUNC_PR, &close)) { return Res{}; }
    filter.pos.finish = close.finish;
    filter.children.push_back(std::move(argument.node));
    return Make(Cat::SetOther, std::move(filter));
  }

  //! '(' ... ')': tuple, bracketed binary set expression or bracketed formula
  Res Parenthesised() {
    const Range open = PosOf(tokens[cursor]);
    ++cursor;
    Res inner = Formula(1);
    if (!inner.Ok()) { return Res{}; }
    Range close{};
    if (Peek() == TokenID::PUNC_COMMA) {
      if (!inner.IsSet()) { return Res{}; }
      ++cursor;
      Node tuple = Inner(TokenID::NT_TUPLE, open);
      tuple.children.push_back(std::move(inner.node));
      if (!SetList(tuple) || !Expect(TokenID::PUNC_PR, &close)) { return Res{}; }
      tuple.pos.finish = close.finish;
      return Make(Cat::SetTuple, std::move(tuple));
    }
    if (!Expect(TokenID::PUNC_PR, &close)) { return Res{}; }
    const Range whole{ open.start, close.finish };
    Cat cat = Cat::Fail;
    if (inner.cat == Cat::SetBinary) {
      cat = Cat::SetBinary;
    } else if (inner.cat == Cat::LogicBinary || inner.cat == Cat::LogicPred) {
      cat = Cat::LogicPar;
    } else {
      return Res{};  // (X1), ({a}), (¬A), ((A)), (∀...) are not in the language
    }
    if (!inner.bracketed) {
      inner.node.pos = whole;  // only the innermost pair of brackets widens the node itself
    }
    inner.cat = cat;
    inner.bracketed = true;
    inner.outer = whole;
    return inner;
  }

  //! '{' set,.. '}'  or  '{' LOCAL '∈' set '|' logic '}'
  Res Braces() {
    const Range open = PosOf(tokens[cursor]);
    if (Peek(1) == TokenID::ID_LOCAL && Peek(2) == TokenID::IN) {
      Node variable = Leaf(tokens[cursor + 1]);
      cursor += 3;
      return DeclarativeTail(open, std::move(variable));
    }
    ++cursor;
    Node result = Inner(TokenID::NT_ENUMERATION, open);
    Range close{};
    if (!SetList(result) || !Expect(TokenID::PUNC_CR, &close)) { return Res{}; }
    result.pos.finish = close.finish;
    return Make(Cat::SetOther, std::move(result));
  }

  //! ... set '|' logic '}'  after  "{x∈" / "D{x∈"
  Res DeclarativeTail(Range open, Node variable) {
    Res domain = Set();
    if (!domain.Ok() || !Expect(TokenID::PUNC_BAR)) { return Res{}; }
    Res condition = OpenLogic();
    Range close{};
    if (!condition.Ok() || !Expect(TokenID::PUNC_CR, &close)) { return Res{}; }
    Node result = Inner(TokenID::NT_DECLARATIVE_EXPR, Range{ open.start, close.finish });
    result.children.push_back(std::move(variable));
    result.children.push_back(std::move(domain.node));
    result.children.push_back(std::move(condition.node));
    return Make(Cat::SetOther, std::move(result));
  }

  //! D '{' variable '∈' set '|' logic '}'
  Res Declarative() {
    const Range open = PosOf(tokens[cursor]);
    ++cursor;
    if (!Expect(TokenID::PUNC_CL)) { return Res{}; }
    std::optional<Node> variable = Variable();
    if (!variable.has_value() || !Expect(TokenID::IN)) { return Res{}; }
    return DeclarativeTail(open, std::move(variable.value()));
  }

  //! R '{' variable ':=' set '|' [ logic '|' ] set '}'
  Res Recursive() {
    const Range open = PosOf(tokens[cursor]);
    ++cursor;
    if (!Expect(TokenID::PUNC_CL)) { return Res{}; }
    std::optional<Node> variable = Variable();
    if (!variable.has_value() || !Expect(TokenID::ASSIGN)) { return Res{}; }
    Res initial = Set();
    if (!initial.Ok() || !Expect(TokenID::PUNC_BAR)) { return Res{}; }
    Res second = Formula(1);
    if (!second.Ok()) { return Res{}; }
    Node result = Inner(TokenID::NT_RECURSIVE_SHORT, open);
    result.children.push_back(std::move(variable.value()));
    result.children.push_back(std::move(initial.node));
    if (Expect(TokenID::PUNC_BAR)) {
      if (!second.IsOpenLogic()) { return Res{}; }
      Res step = Set();
      if (!step.Ok()) { return Res{}; }
      result.id = TokenID::NT_RECURSIVE_FULL;
      result.children.push_back(std::move(second.node));
      result.children.push_back(std::move(step.node));
    } else {
      if (!second.IsSet()) { return Res{}; }
      result.children.push_back(std::move(second.node));
    }
    Range close{};
    if (!Expect(TokenID::PUNC_CR, &close)) { return Res{}; }
    result.pos.finish = close.finish;
    return Make(Cat::SetOther, std::move(result));
  }

  //! I '{' set '|' logic { ';' logic } '}'
  Res Imperative() {
    const Range open = PosOf(tokens[cursor]);
    ++cursor;
    if (!Expect(TokenID::PUNC_CL)) { return Res{}; }
    Res value = Set();
    if (!value.Ok() || !Expect(TokenID::PUNC_BAR)) { return Res{}; }
    Node result = Inner(TokenID::NT_IMPERATIVE_EXPR, open);
    result.children.push_back(std::move(value.node));
    for (;;) {
      Res block = OpenLogic();
      if (!block.Ok()) { return Res{}; }
      result.children.push_back(std::move(block.node));
      if (!Expect(TokenID::PUNC_SEMICOLON)) {
        break;
      }
    }
    Range close{};
    if (!Expect(TokenID::PUNC_CR, &close)) { return Res{}; }
    result.pos.finish = close.finish;
    return Make(Cat::SetOther, std::move(result));
  }

  Res Primary() {
    switch (Peek()) {
    default:
      return Res{};
    case TokenID::LIT_INTEGER: case TokenID::LIT_EMPTYSET: case TokenID::LIT_INTSET: case TokenID::ID_GLOBAL: case TokenID::ID_RADICAL:
      return Make(Cat::SetOther, Leaf(tokens[cursor++]));
    case TokenID::ID_LOCAL:
      return Make(Cat::SetLocal, Leaf(tokens[cursor++]));
    case TokenID::ID_FUNCTION: case TokenID::ID_PREDICATE:
      if (Peek(1) == TokenID::PUNC_SL) {
        return Call();
      }
      return Make(Cat::SetOther, Leaf(tokens[cursor++]));  // bare name is an identifier
    case TokenID::BOOL: case TokenID::DEBOOL: case TokenID::REDUCE: case TokenID::BIGPR: case TokenID::SMALLPR: case TokenID::CARD:
      return Operator(Leaf(tokens[cursor++]));
    case TokenID::BOOLEAN:
      return Boolean();
    case TokenID::FILTER:
      return Filter();
    case TokenID::PUNC_PL:
      return Parenthesised();
    case TokenID::PUNC_CL:
      return Braces();
    case TokenID::DECLARATIVE:
      return Declarative();
    case TokenID::RECURSIVE:
      return Recursive();
    case TokenID::IMPERATIVE:
      return Imperative();
    }
  }
};

} // namespace detail

//! Parse token sequence (without trailing END). nullopt = not a valid RSLang expression.
inline std::optional<Node> Parse(const std::vector<Token>& tokens) {
  return detail::Parser{ tokens }.Run();
}

//! Dump in the format of ccl::rslang::AST2String::Apply
inline std::string ToString(const Node& root) {
  std::string result{};
  detail::Dump(root, result);
  return result;
}

//! Dump with ranges: [text@start:finish children...]
inline void DumpWithRanges(const Node& node, std::string& out) {
  out.push_back('[');
  out += detail::NodeText(node);
  out.push_back('@');
  out += detail::IntToString(node.pos.start);
  out.push_back(':');
  out += detail::IntToString(node.pos.finish);
  for (const auto& child : node.children) {
    DumpWithRanges(child, out);
  }
  out.push_back(']');
}

inline std::optional<std::string> ParseToString(const std::vector<Token>& tokens) {
  const auto tree = Parse(tokens);
  if (!tree.has_value()) { return std::nullopt; }
  return ToString(tree.value());
}

} // namespace ref
