// Reference UTF-8 structure decoder (independent of /repo): well-formedness by lead/continuation
// byte classes (1-4 byte forms), code point offsets and sizes.
#pragma once
#include <stddef.h>
#include <stdint.h>
namespace ref {
struct Utf8Layout {
  int count = 0;          // number of code points
  int off[17] = {0};      // byte offset of code point k; off[count] = n
  int size[16] = {0};
  bool ok = false;
};
inline bool isCont(unsigned char b) { return (b & 0xC0) == 0x80; }
// n <= 16
inline Utf8Layout DecodeUtf8(const unsigned char* p, int n) {
  Utf8Layout L;
  int i = 0;
  while (i < n) {
    unsigned char b = p[i];
    int len;
    if (b < 0x80) len = 1;
    else if ((b & 0xE0) == 0xC0) len = 2;
    else if ((b & 0xF0) == 0xE0) len = 3;
    else if ((b & 0xF8) == 0xF0) len = 4;
    else return L;                       // continuation byte or F8..FF as lead: malformed
    if (i + len > n) return L;           // truncated
    for (int k = 1; k < len; ++k) if (!isCont(p[i + k])) return L;
    L.off[L.count] = i; L.size[L.count] = len; ++L.count;
    i += len;
  }
  L.off[L.count] = n;
  L.ok = true;
  return L;
}
}  // namespace ref
