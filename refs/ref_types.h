// ref_types.h -- independent reference type checker (oracle) for RSLang expressions.
//
// Shares no code with /repo.  It is a plain recursive type inference over the syntax tree
// produced by the real parser; every construct is typed "from its meaning":
//
//   Types:  LOGIC | BASE(name) | TUPLE(t1..tn, n>=2) | SET(t)        (+ NONE = "no type known")
//           Z is BASE("Z"); the element type of the empty-set literal is ANY = BASE("R0").
//   ANY is a bottom element: it joins with everything (Join(ANY,t)=t), and an ANY-typed value
//   may be used where a set is required (its elements are ANY again).
//   Z joins with every base type whose traits say "convertsFromInt" (the join is that base type).
//
// API (namespace ref):
//   struct Type;  struct Traits;  struct FuncSig{args,result};  struct TypeEnv{globals,functions,traits};
//   enum class Verdict { ACCEPT, REJECT, UNSUPPORTED };
//   struct Result { Verdict verdict; Type type; std::vector<std::pair<std::string,Type>> declaredArgs; };
//   Result      Check(const ccl::rslang::SyntaxTree& ast, const TypeEnv& env, uint32_t quirks = QUIRK_NONE);
//               quirks: bit set of ref::Quirk -- imitate the listed accidents of the real checker instead of the rule
//   std::string ToString(const Type&);         // == Typification::ToString(), "LOGIC" for LOGIC
//   Type        FromTypification(const ccl::rslang::Typification&);
//   Type        FromExpressionType(const ccl::rslang::ExpressionType&);
//   TypeEnv     MakeEnv(const ccl::rslang::TypeContext&, const std::vector<std::string>& names);
//
// TypeEnv mirrors what ccl::rslang::TypeContext exposes:
//   globals   : name -> type of the expression the name denotes (X1 -> SET(BASE X1), axiom -> LOGIC),
//               for names that have NO argument list (FunctionArgsFor == nullptr, TypeFor != nullptr)
//   functions : name -> declared arguments + result type (LOGIC for predicates, NONE if TypeFor == nullptr),
//               for names that HAVE an argument list (FunctionArgsFor != nullptr)
//   traits    : base name -> {ordered, arithmetic, fromInt}; "Z" must be listed explicitly when the
//               context returns traits for Typification::Integer() (Schema does: integral).
//
// Rules (T(e) = type of e; "set" = SET(t) or ANY, with element type t resp. ANY; any ill-typed part => REJECT):
//   X#/C#/S#/D#/A#/T#..  type from env.globals; a name that has parameters must be called; untyped name => REJECT
//   local x              type of the visible binding; undeclared / out of scope => REJECT
//   binders              forall/exists, D{..}, R{..}, I{..}, [..] open a scope; a visible name may not be rebound (no
//                        shadowing); rebinding a name whose scope has ended is fine; unused variables are fine (warnings)
//   patterns             x : any type;  (p1,..,pn) : TUPLE of exactly n components;  p1,..,pn (quantifier list): each : the type
//   n  -> Z;   Z -> SET(Z);   empty set -> SET(ANY), but not as a direct operand of card debool red Pr pr and the 4 set operations
//   R#                   SET(BASE R#), only inside the parameter declarations of a function definition
//   a+b a-b a*b          both base types with "arithmetic" trait, result Join(a,b)
//   a<b (4 forms)        both base types with "ordered" trait and joinable -> LOGIC
//   a=b, a!=b            both objects (not LOGIC), joinable -> LOGIC
//   a in S, a notin S    S set, T(a) joinable with its element type -> LOGIC
//   A sub B (3 forms)    B set, T(A) joinable with SET(elements of B) -> LOGIC
//   A op B (4 set ops)   both sets, SET(Join of element types)
//   A1 x .. x An         all sets -> SET(TUPLE(elements));      B(A): A set -> SET(SET(elements))
//   (a1,..,an) -> TUPLE(T(ai));   {a1,..,an} / bool(a) -> SET(Join of all);   debool(A): A set -> elements;   card(A): A set -> Z
//   Pr_i..(A)            A set of tuples -> SET(selected components)   (ANY elements -> SET(ANY))
//   pr_i..(a)            a tuple -> selected components (one index: the component itself)   (ANY -> ANY)
//   red(A)               SET(SET(t)) -> SET(t)                  (ANY, SET(ANY) -> SET(ANY))
//   Fi_i1..ik[P..](A)    A set of tuples; either k parameters, Pj a SET joinable with component ij, or one parameter,
//                        a SET joinable with SET(TUPLE(selected)); result T(A)   (A: ANY, SET(ANY) -> SET(ANY), parameters sets)
//   not, &, or, =>, <=>  operands LOGIC -> LOGIC;   quantifier: domain set, pattern bound to its elements, body LOGIC -> LOGIC
//   {x in A | P}, D{p in A | P}   as quantifier, result SET(elements of A)
//   F[a1..an]            F has n parameters and a type; declared types (radicals renamed apart by appending F's name) are
//                        matched left to right: equal | radical: bind, or join with earlier binding | actual ANY | same shape
//                        component-wise | Z vs. integer-like; result = declared result with radicals instantiated (LOGIC for predicates)
//   [x1 in A1,..] body   Ai sets (may use radicals and earlier parameters); result T(body); declaredArgs = (xi, elements of Ai)
//   R{p := a | [c |] s}  t0 = T(a), t1 = T(s) under p:t0 must be joinable with t0; then iterate p:t_k until T(s) repeats (within 5 rounds, otherwise ill-typed);
//                        c LOGIC under the final binding; result the last t
//   I{v | blocks}        blocks left to right: p :in A binds p to elements of A; p := a binds p to T(a); else LOGIC; result SET(T(v))
//   N :== e -> T(e);  N :== -> SET(BASE N);  N ::= e: e built only from Z, global names, B, x, {..}; T(e) a set -> its elements
// Behaviour of the real checker that looks odd but is followed here (not switchable): tuple pattern over ANY is rejected;
// Fi parameters of type ANY are rejected (not "sets"); unbound radicals of a result keep their renamed form (R2F10);
// Z and integer-like types convert in both directions.
//
// Restrictions: header-only, no iostream/sstream/regex/locale/unordered containers/std::function,
// no static mutable state, no exceptions thrown by this code (token payloads are read only after IsText()/IsTuple()).
#pragma once

#include <algorithm>
#include <cstdint>
#include <optional>
#include <string>
#include <utility>
#include <variant>
#include <vector>

#include "ccl/rslang/SyntaxTree.h"
#include "ccl/rslang/TypeContext.hpp"
#include "ccl/rslang/Typification.h"

namespace ref {

// ===================================================================== types
enum class Kind : uint8_t { NONE, LOGIC, BASE, TUPLE, SET };

struct Type {
  Kind kind{ Kind::NONE };
  std::string name{};          // BASE only
  std::vector<Type> kids{};    // TUPLE: >= 2 components, SET: exactly one

  static Type Logic() { Type t; t.kind = Kind::LOGIC; return t; }
  static Type Base(std::string id) { Type t; t.kind = Kind::BASE; t.name = std::move(id); return t; }
  static Type Int() { return Base("Z"); }
  static Type Any() { return Base("R0"); }
  static Type Set(Type element) { Type t; t.kind = Kind::SET; t.kids.push_back(std::move(element)); return t; }
  //! Tuple of one component is the component itself (0 components only arise under QUIRK_EMPTY_INDEX_PROJECTION)
  static Type Tuple(std::vector<Type> parts) {
    if (parts.size() == 1) { return parts[0]; }
    Type t; t.kind = Kind::TUPLE; t.kids = std::move(parts); return t;
  }

  bool IsLogic() const { return kind == Kind::LOGIC; }
  bool IsBase() const { return kind == Kind::BASE; }
  bool IsSet() const { return kind == Kind::SET; }
  bool IsTuple() const { return kind == Kind::TUPLE; }
  bool IsTyped() const { return kind == Kind::BASE || kind == Kind::TUPLE || kind == Kind::SET; }
  bool IsAny() const { return kind == Kind::BASE && name == "R0"; }
  bool IsInt() const { return kind == Kind::BASE && name == "Z"; }
  const Type& Elem() const { return kids[0]; }   // precondition: IsSet()

  bool operator==(const Type& rhs) const {
    if (kind != rhs.kind || name != rhs.name || kids.size() != rhs.kids.size()) { return false; }
    for (size_t i = 0; i < kids.size(); ++i) {
      if (!(kids[i] == rhs.kids[i])) { return false; }
    }
    return true;
  }
  bool operator!=(const Type& rhs) const { return !(*this == rhs); }
};

using TypedName = std::pair<std::string, Type>;

struct Traits { bool ordered{ false }; bool arithmetic{ false }; bool fromInt{ false }; };

struct FuncSig {
  std::vector<TypedName> args{};
  Type result{};                 // LOGIC: predicate; NONE: the context has arguments but no type
};

struct TypeEnv {
  std::vector<TypedName> globals{};
  std::vector<std::pair<std::string, FuncSig>> functions{};
  std::vector<std::pair<std::string, Traits>> traits{};
};

enum class Verdict : uint8_t { ACCEPT, REJECT, UNSUPPORTED };

//! Known accidents of the real checker; Check() follows the RULE unless a bit is set, then it imitates the accident.
//! (Used by the differential test to attribute every disagreement, and by harnesses that want zero noise.)
enum Quirk : uint32_t {
  QUIRK_NONE = 0,
  QUIRK_FILTER_ANY_SKIPS_PARAMS = 1,    // Fi[..](S) with S of type ANY / SET(ANY): parameters are not even visited
  QUIRK_LOGIC_OPERAND_UNCHECKED = 2,    // operands of logical connectives / bodies of binders need not be LOGIC (P# typed as a set)
  QUIRK_EMPTY_INDEX_PROJECTION = 4,     // pr0 / Pr0 (no valid index): result is a 0-ary tuple type
  QUIRK_ARGS_DROP_REUSED_NAMES = 8,     // a parameter whose name was bound earlier is missing from declaredArgs
  QUIRK_ALL = 15,
  //! not an accident but a mode of the real checker: TypeAuditor::SetExepectTypification() -- radicals allowed everywhere
  MODE_TYPIFICATION = 256
};

struct Result {
  Verdict verdict{ Verdict::REJECT };
  Type type{};
  std::vector<TypedName> declaredArgs{};
};

// ===================================================================== printing / conversion
inline std::string ToString(const Type& t) {
  switch (t.kind) {
  case Kind::NONE: return "NONE";
  case Kind::LOGIC: return "LOGIC";
  case Kind::BASE: return t.name;
  case Kind::TUPLE: {
    std::string out{};
    for (size_t i = 0; i < t.kids.size(); ++i) {
      if (i != 0) { out += "\xC3\x97"; }                       // U+00D7
      if (t.kids[i].IsTuple()) { out += '('; out += ToString(t.kids[i]); out += ')'; }
      else { out += ToString(t.kids[i]); }
    }
    return out;
  }
  case Kind::SET: {
    std::string out{ "\xE2\x84\xAC" };                          // U+212C
    if (t.Elem().IsSet()) { out += ToString(t.Elem()); }
    else { out += '('; out += ToString(t.Elem()); out += ')'; }
    return out;
  }
  }
  return {};
}

inline Type FromTypification(const ccl::rslang::Typification& t) {
  if (t.IsElement()) { return Type::Base(t.E().baseID); }
  if (t.IsCollection()) { return Type::Set(FromTypification(t.B().Base())); }
  Type out; out.kind = Kind::TUPLE;          // keep the arity as is (no 1-tuple collapsing here)
  for (const auto& component : t.T()) { out.kids.push_back(FromTypification(component)); }
  return out;
}

inline Type FromExpressionType(const ccl::rslang::ExpressionType& t) {
  if (const auto* typed = std::get_if<ccl::rslang::Typification>(&t); typed != nullptr) {
    return FromTypification(*typed);
  }
  return Type::Logic();
}

//! Build the environment from a real context for the listed global names (+ traits of Z)
inline TypeEnv MakeEnv(const ccl::rslang::TypeContext& context, const std::vector<std::string>& names) {
  TypeEnv env{};
  auto addTraits = [&](const std::string& base) {
    const auto traits = context.TraitsFor(ccl::rslang::Typification{ base });
    if (traits.has_value()) {
      env.traits.emplace_back(base, Traits{ traits->isOrdered, traits->isOperable, traits->convertsFromInt });
    }
  };
  addTraits("Z");
  for (const auto& name : names) {
    const auto* type = context.TypeFor(name);
    const auto* args = context.FunctionArgsFor(name);
    if (args != nullptr) {
      FuncSig sig{};
      for (const auto& arg : *args) { sig.args.emplace_back(arg.name, FromTypification(arg.type)); }
      if (type != nullptr) { sig.result = FromExpressionType(*type); }
      env.functions.emplace_back(name, std::move(sig));
    } else if (type != nullptr) {
      env.globals.emplace_back(name, FromExpressionType(*type));
    }
    if (name != "Z") { addTraits(name); }
  }
  return env;
}

// ===================================================================== checker
namespace detail {

using Cursor = ccl::rslang::SyntaxTree::Cursor;
using TokenID = ccl::rslang::TokenID;
using MaybeType = std::optional<Type>;

class Checker {
  const TypeEnv& env;
  std::vector<TypedName> scope{};      // local variables that are visible now, innermost last
  bool inSignature{ false };           // inside the [ ... ] of a function definition
  std::vector<std::string> everDeclared{};   // only for QUIRK_ARGS_DROP_REUSED_NAMES
public:
  uint32_t quirks{ QUIRK_NONE };
  bool unsupported{ false };
  std::vector<TypedName> declaredArgs{};

  explicit Checker(const TypeEnv& environment) : env{ environment } {}

  // ---------------------------------------------------------------- environment
  const Traits* TraitsOf(const Type& t) const {
    if (!t.IsBase()) { return nullptr; }
    for (const auto& entry : env.traits) {
      if (entry.first == t.name) { return &entry.second; }
    }
    return nullptr;
  }
  const FuncSig* Function(const std::string& name) const {
    for (const auto& entry : env.functions) {
      if (entry.first == name) { return &entry.second; }
    }
    return nullptr;
  }
  const Type* Global(const std::string& name) const {
    for (const auto& entry : env.globals) {
      if (entry.first == name) { return &entry.second; }
    }
    return nullptr;
  }

  // ---------------------------------------------------------------- type algebra
  //! Z <-> integer-like base set: the integer-like one wins
  MaybeType IntJoin(const Type& a, const Type& b) const {
    if (a.IsInt()) {
      const auto* traits = TraitsOf(b);
      if (traits != nullptr && traits->fromInt) { return b; }
    } else if (b.IsInt()) {
      const auto* traits = TraitsOf(a);
      if (traits != nullptr && traits->fromInt) { return a; }
    }
    return std::nullopt;
  }

  //! Least common type, if the two types are compatible
  MaybeType Join(const Type& a, const Type& b) const {
    if (a == b) { return a; }
    if (a.IsAny()) { return b; }
    if (b.IsAny()) { return a; }
    if (a.kind != b.kind) { return std::nullopt; }
    if (a.IsBase()) { return IntJoin(a, b); }
    if (a.IsSet()) {
      auto element = Join(a.Elem(), b.Elem());
      if (!element.has_value()) { return std::nullopt; }
      return Type::Set(std::move(*element));
    }
    if (a.IsTuple() && a.kids.size() == b.kids.size()) {
      std::vector<Type> parts{};
      for (size_t i = 0; i < a.kids.size(); ++i) {
        auto part = Join(a.kids[i], b.kids[i]);
        if (!part.has_value()) { return std::nullopt; }
        parts.push_back(std::move(*part));
      }
      return Type::Tuple(std::move(parts));
    }
    return std::nullopt;
  }
  bool Compatible(const Type& a, const Type& b) const { return Join(a, b).has_value(); }

  static bool IsRadicalName(const std::string& id) {
    return id.size() >= 2 && id[0] == 'R' && id[1] != '0';
  }

  //! Template parameters of the callee are renamed apart from the caller's own radicals
  static Type RenameRadicals(const Type& t, const std::string& suffix) {
    Type out = t;
    if (out.IsBase()) {
      if (IsRadicalName(out.name)) { out.name += suffix; }
    } else {
      for (auto& kid : out.kids) { kid = RenameRadicals(kid, suffix); }
    }
    return out;
  }

  static Type Instantiate(const Type& t, const std::vector<TypedName>& binding) {
    if (t.IsBase()) {
      for (const auto& entry : binding) {
        if (entry.first == t.name) { return entry.second; }
      }
      return t;
    }
    Type out = t;
    for (auto& kid : out.kids) { kid = Instantiate(kid, binding); }
    return out;
  }

  //! Match a declared parameter type (with template parameters) against the type of the actual argument
  bool Unify(std::vector<TypedName>& binding, const Type& pattern, const Type& actual) const {
    if (pattern == actual) { return true; }
    if (pattern.IsBase() && IsRadicalName(pattern.name)) {
      for (auto& entry : binding) {
        if (entry.first == pattern.name) {
          auto joined = Join(entry.second, actual);
          if (!joined.has_value()) { return false; }
          entry.second = std::move(*joined);
          return true;
        }
      }
      binding.emplace_back(pattern.name, actual);
      return true;
    }
    if (actual.IsAny()) { return true; }
    if (pattern.kind != actual.kind) { return false; }
    if (pattern.IsBase()) { return IntJoin(pattern, actual).has_value(); }
    if (pattern.kids.size() != actual.kids.size()) { return false; }
    for (size_t i = 0; i < pattern.kids.size(); ++i) {
      if (!Unify(binding, pattern.kids[i], actual.kids[i])) { return false; }
    }
    return true;
  }

  // ---------------------------------------------------------------- local variables
  const Type* Lookup(const std::string& name) const {
    for (const auto& var : scope) {
      if (var.first == name) { return &var.second; }
    }
    return nullptr;
  }
  bool Declare(const std::string& name, const Type& type) {
    if (Lookup(name) != nullptr) { return false; }     // no shadowing / redeclaration of a visible name
    scope.emplace_back(name, type);
    if ((quirks & QUIRK_ARGS_DROP_REUSED_NAMES) != 0) { everDeclared.push_back(name); }
    return true;
  }
  //! Bind a declaration pattern: x | (x, (y, z)) | x, y, z
  bool Bind(Cursor pattern, const Type& type) {
    switch (pattern->id) {
    case TokenID::ID_LOCAL: {
      const auto* name = NameOf(pattern);
      return name != nullptr && Declare(*name, type);
    }
    case TokenID::NT_TUPLE_DECL: {
      if (!type.IsTuple() || static_cast<size_t>(pattern.ChildrenCount()) != type.kids.size()) { return false; }
      for (ccl::rslang::Index i = 0; i < pattern.ChildrenCount(); ++i) {
        if (!Bind(pattern.Child(i), type.kids[static_cast<size_t>(i)])) { return false; }
      }
      return true;
    }
    case TokenID::NT_ENUM_DECL: {
      for (ccl::rslang::Index i = 0; i < pattern.ChildrenCount(); ++i) {
        if (!Bind(pattern.Child(i), type)) { return false; }
      }
      return true;
    }
    default:
      unsupported = true;
      return false;
    }
  }

  // ---------------------------------------------------------------- token payload (never throws)
  const std::string* NameOf(Cursor node) {
    if (!node->data.IsText()) { unsupported = true; return nullptr; }
    return &node->data.ToText();
  }
  const std::vector<ccl::rslang::Index>* IndicesOf(Cursor node) {
    if (!node->data.IsTuple()) { unsupported = true; return nullptr; }
    return &node->data.ToTuple();
  }

  // ---------------------------------------------------------------- operand helpers
  static bool IsEmptyLiteral(Cursor node) { return node->id == TokenID::LIT_EMPTYSET; }

  //! Operand that must denote an object (not a truth value)
  MaybeType Term(Cursor node) {
    auto type = Infer(node);
    if (!type.has_value() || !type->IsTyped()) { return std::nullopt; }
    return type;
  }
  //! Operand that must be a set: returns the type of its elements
  MaybeType Elements(Cursor node) {
    const auto type = Term(node);
    if (!type.has_value()) { return std::nullopt; }
    if (type->IsAny()) { return *type; }
    if (!type->IsSet()) { return std::nullopt; }
    return type->Elem();
  }
  //! Operand that must be a formula
  bool Formula(Cursor node) {
    const auto type = Infer(node);
    if ((quirks & QUIRK_LOGIC_OPERAND_UNCHECKED) != 0) { return type.has_value(); }
    return type.has_value() && type->IsLogic();
  }

  //! Components selected by projection indices (1-based); nothing selected is an error
  MaybeType Select(const Type& tuple, const std::vector<ccl::rslang::Index>& indices) const {
    if (!tuple.IsTuple()) { return std::nullopt; }
    if (indices.empty() && (quirks & QUIRK_EMPTY_INDEX_PROJECTION) == 0) { return std::nullopt; }
    std::vector<Type> parts{};
    for (const auto index : indices) {
      if (index < 1 || static_cast<size_t>(index) > tuple.kids.size()) { return std::nullopt; }
      parts.push_back(tuple.kids[static_cast<size_t>(index) - 1]);
    }
    return Type::Tuple(std::move(parts));
  }

  // ---------------------------------------------------------------- the rules
  MaybeType Infer(Cursor node) {
    const auto count = node.ChildrenCount();
    switch (node->id) {
    // ----- atoms
    case TokenID::ID_GLOBAL:
    case TokenID::ID_FUNCTION:
    case TokenID::ID_PREDICATE: {
      const auto* name = NameOf(node);
      if (name == nullptr || Function(*name) != nullptr) { return std::nullopt; }   // parametrised name without arguments
      const auto* type = Global(*name);
      if (type == nullptr || type->kind == Kind::NONE) { return std::nullopt; }
      return *type;
    }
    case TokenID::ID_LOCAL: {
      const auto* name = NameOf(node);
      const auto* type = name == nullptr ? nullptr : Lookup(*name);
      if (type == nullptr) { return std::nullopt; }             // undeclared or out of scope
      return *type;
    }
    case TokenID::ID_RADICAL: {
      const auto* name = NameOf(node);
      if (name == nullptr) { return std::nullopt; }
      if (!inSignature && (quirks & MODE_TYPIFICATION) == 0) { return std::nullopt; }   // only in parameter declarations
      return Type::Set(Type::Base(*name));
    }
    case TokenID::LIT_INTEGER: return Type::Int();
    case TokenID::LIT_INTSET: return Type::Set(Type::Int());
    case TokenID::LIT_EMPTYSET: return Type::Set(Type::Any());

    // ----- integers
    case TokenID::PLUS:
    case TokenID::MINUS:
    case TokenID::MULTIPLY: {
      if (count != 2) { break; }
      const auto lhs = Term(node.Child(0));
      if (!lhs.has_value()) { return std::nullopt; }
      const auto rhs = Term(node.Child(1));
      if (!rhs.has_value()) { return std::nullopt; }
      const auto* traits1 = TraitsOf(*lhs);
      const auto* traits2 = TraitsOf(*rhs);
      if (traits1 == nullptr || !traits1->arithmetic || traits2 == nullptr || !traits2->arithmetic) {
        return std::nullopt;
      }
      return Join(*lhs, *rhs);
    }
    case TokenID::GREATER:
    case TokenID::LESSER:
    case TokenID::GREATER_OR_EQ:
    case TokenID::LESSER_OR_EQ: {
      if (count != 2) { break; }
      const auto lhs = Term(node.Child(0));
      if (!lhs.has_value()) { return std::nullopt; }
      const auto rhs = Term(node.Child(1));
      if (!rhs.has_value()) { return std::nullopt; }
      const auto* traits1 = TraitsOf(*lhs);
      const auto* traits2 = TraitsOf(*rhs);
      if (traits1 == nullptr || !traits1->ordered || traits2 == nullptr || !traits2->ordered) {
        return std::nullopt;
      }
      if (!Compatible(*lhs, *rhs)) { return std::nullopt; }
      return Type::Logic();
    }
    case TokenID::CARD: {
      if (count != 1 || IsEmptyLiteral(node.Child(0))) { break; }
      if (!Elements(node.Child(0)).has_value()) { return std::nullopt; }
      return Type::Int();
    }

    // ----- predicates on objects
    case TokenID::EQUAL:
    case TokenID::NOTEQUAL: {
      if (count != 2) { break; }
      const auto lhs = Term(node.Child(0));
      if (!lhs.has_value()) { return std::nullopt; }
      const auto rhs = Term(node.Child(1));
      if (!rhs.has_value() || !Compatible(*lhs, *rhs)) { return std::nullopt; }
      return Type::Logic();
    }
    case TokenID::IN:
    case TokenID::NOTIN: {
      if (count != 2) { break; }
      const auto element = Term(node.Child(0));
      if (!element.has_value()) { return std::nullopt; }
      const auto members = Elements(node.Child(1));
      if (!members.has_value() || !Compatible(*element, *members)) { return std::nullopt; }
      return Type::Logic();
    }
    case TokenID::SUBSET:
    case TokenID::SUBSET_OR_EQ:
    case TokenID::NOTSUBSET: {
      if (count != 2) { break; }
      const auto lhs = Term(node.Child(0));
      if (!lhs.has_value()) { return std::nullopt; }
      const auto members = Elements(node.Child(1));
      if (!members.has_value() || !Compatible(*lhs, Type::Set(*members))) { return std::nullopt; }
      return Type::Logic();
    }

    // ----- propositional connectives and quantifiers
    case TokenID::NOT:
      if (count != 1) { break; }
      if (!Formula(node.Child(0))) { return std::nullopt; }
      return Type::Logic();
    case TokenID::AND:
    case TokenID::OR:
    case TokenID::IMPLICATION:
    case TokenID::EQUIVALENT:
      if (count != 2) { break; }
      if (!Formula(node.Child(0)) || !Formula(node.Child(1))) { return std::nullopt; }
      return Type::Logic();
    case TokenID::FORALL:
    case TokenID::EXISTS:
    case TokenID::NT_DECLARATIVE_EXPR: {
      if (count != 3) { break; }
      const auto outer = scope.size();
      const auto domain = Elements(node.Child(1));              // the bound names are not visible in the domain
      if (!domain.has_value() || !Bind(node.Child(0), *domain) || !Formula(node.Child(2))) {
        return std::nullopt;
      }
      scope.resize(outer, TypedName{});
      if (node->id == TokenID::NT_DECLARATIVE_EXPR) { return Type::Set(*domain); }
      return Type::Logic();
    }

    // ----- set constructors
    case TokenID::DECART: {
      if (count < 2) { break; }
      std::vector<Type> factors{};
      for (ccl::rslang::Index i = 0; i < count; ++i) {
        auto factor = Elements(node.Child(i));
        if (!factor.has_value()) { return std::nullopt; }
        factors.push_back(std::move(*factor));
      }
      return Type::Set(Type::Tuple(std::move(factors)));
    }
    case TokenID::BOOLEAN: {
      if (count != 1) { break; }
      const auto members = Elements(node.Child(0));
      if (!members.has_value()) { return std::nullopt; }
      return Type::Set(Type::Set(*members));
    }
    case TokenID::NT_TUPLE: {
      if (count < 2) { break; }
      std::vector<Type> parts{};
      for (ccl::rslang::Index i = 0; i < count; ++i) {
        auto part = Term(node.Child(i));
        if (!part.has_value()) { return std::nullopt; }
        parts.push_back(std::move(*part));
      }
      return Type::Tuple(std::move(parts));
    }
    case TokenID::NT_ENUMERATION:
    case TokenID::BOOL: {
      if (count < 1) { break; }
      auto common = Term(node.Child(0));
      for (ccl::rslang::Index i = 1; common.has_value() && i < count; ++i) {
        const auto next = Term(node.Child(i));
        if (!next.has_value()) { return std::nullopt; }
        common = Join(*common, *next);
      }
      if (!common.has_value()) { return std::nullopt; }
      return Type::Set(*common);
    }
    case TokenID::DEBOOL:
      if (count != 1 || IsEmptyLiteral(node.Child(0))) { break; }
      return Elements(node.Child(0));
    case TokenID::UNION:
    case TokenID::INTERSECTION:
    case TokenID::SET_MINUS:
    case TokenID::SYMMINUS: {
      if (count != 2 || IsEmptyLiteral(node.Child(0)) || IsEmptyLiteral(node.Child(1))) { break; }
      const auto lhs = Elements(node.Child(0));
      if (!lhs.has_value()) { return std::nullopt; }
      const auto rhs = Elements(node.Child(1));
      if (!rhs.has_value()) { return std::nullopt; }
      const auto members = Join(*lhs, *rhs);
      if (!members.has_value()) { return std::nullopt; }
      return Type::Set(*members);
    }

    // ----- structural operations
    case TokenID::BIGPR: {
      if (count != 1 || IsEmptyLiteral(node.Child(0))) { break; }
      const auto members = Elements(node.Child(0));
      if (!members.has_value()) { return std::nullopt; }
      if (members->IsAny()) { return Type::Set(Type::Any()); }
      const auto* indices = IndicesOf(node);
      if (indices == nullptr) { return std::nullopt; }
      const auto selected = Select(*members, *indices);
      if (!selected.has_value()) { return std::nullopt; }
      return Type::Set(*selected);
    }
    case TokenID::SMALLPR: {
      if (count != 1 || IsEmptyLiteral(node.Child(0))) { break; }
      const auto tuple = Term(node.Child(0));
      if (!tuple.has_value()) { return std::nullopt; }
      if (tuple->IsAny()) { return tuple; }
      const auto* indices = IndicesOf(node);
      if (indices == nullptr) { return std::nullopt; }
      return Select(*tuple, *indices);
    }
    case TokenID::REDUCE: {
      if (count != 1 || IsEmptyLiteral(node.Child(0))) { break; }
      const auto family = Term(node.Child(0));
      if (!family.has_value()) { return std::nullopt; }
      if (family->IsAny() || (family->IsSet() && family->Elem().IsAny())) { return Type::Set(Type::Any()); }
      if (!family->IsSet() || !family->Elem().IsSet()) { return std::nullopt; }
      return family->Elem();
    }
    case TokenID::FILTER: return Filter(node);

    // ----- names with parameters
    case TokenID::NT_FUNC_CALL: return Call(node);
    case TokenID::NT_FUNC_DEFINITION: return Definition(node);

    // ----- recursive and imperative definitions
    case TokenID::NT_RECURSIVE_FULL:
    case TokenID::NT_RECURSIVE_SHORT: return Recursion(node);
    case TokenID::NT_IMPERATIVE_EXPR: return Imperative(node);

    // ----- global declarations
    case TokenID::PUNC_DEFINE: {
      if (count == 1) {
        const auto* name = NameOf(node.Child(0));
        if (name == nullptr) { return std::nullopt; }
        return Type::Set(Type::Base(*name));
      }
      if (count != 2) { break; }
      return Infer(node.Child(1));
    }
    case TokenID::PUNC_STRUCT: {
      if (count != 2 || !IsStructureExpression(node.Child(1))) { break; }
      return Elements(node.Child(1));
    }

    case TokenID::ITERATE:      // only meaningful directly inside I{...}
    case TokenID::ASSIGN:
      return std::nullopt;
    default:
      unsupported = true;
      return std::nullopt;
    }
    return std::nullopt;
  }

  //! Fi_{i1..ik}[p1..pm](S): keep tuples of S whose selected components belong to the parameters
  MaybeType Filter(Cursor node) {
    const auto count = node.ChildrenCount();
    if (count < 2) { return std::nullopt; }
    const auto* indexList = IndicesOf(node);
    if (indexList == nullptr) { return std::nullopt; }
    const auto& indices = *indexList;
    const auto paramCount = static_cast<size_t>(count) - 1;
    const bool perIndex = paramCount == indices.size();
    if (!perIndex && paramCount != 1) { return std::nullopt; }

    const auto argument = Term(node.Child(static_cast<ccl::rslang::Index>(count - 1)));
    if (!argument.has_value()) { return std::nullopt; }
    const bool anyArgument = argument->IsAny() || (argument->IsSet() && argument->Elem().IsAny());
    if (anyArgument && (quirks & QUIRK_FILTER_ANY_SKIPS_PARAMS) != 0) { return Type::Set(Type::Any()); }
    std::vector<Type> params{};
    for (ccl::rslang::Index i = 0; i + 1 < count; ++i) {
      auto param = Term(node.Child(i));
      if (!param.has_value()) { return std::nullopt; }
      params.push_back(std::move(*param));
    }
    if (anyArgument) {
      for (const auto& param : params) {
        if (!param.IsSet()) { return std::nullopt; }
      }
      return Type::Set(Type::Any());
    }
    if (!argument->IsSet() || !argument->Elem().IsTuple()) { return std::nullopt; }
    const auto& tuple = argument->Elem();
    if (perIndex) {
      for (size_t i = 0; i < indices.size(); ++i) {
        const auto component = Select(tuple, { indices[i] });
        if (!component.has_value()) { return std::nullopt; }
        if (!params[i].IsSet() || !Compatible(*component, params[i].Elem())) { return std::nullopt; }
      }
    } else {
      const auto selected = Select(tuple, indices);
      if (!selected.has_value()) { return std::nullopt; }
      if (!params[0].IsSet() || !Compatible(Type::Set(*selected), params[0])) { return std::nullopt; }
    }
    return argument;
  }

  //! F[a1..an]: match arguments against declared parameters, instantiate template parameters
  MaybeType Call(Cursor node) {
    const auto count = node.ChildrenCount();
    if (count < 2) { return std::nullopt; }
    const auto* callee = NameOf(node.Child(0));
    if (callee == nullptr) { return std::nullopt; }
    const auto& name = *callee;
    const auto* signature = Function(name);
    if (signature == nullptr || signature->result.kind == Kind::NONE) { return std::nullopt; }
    if (signature->args.size() != static_cast<size_t>(count) - 1) { return std::nullopt; }

    std::vector<TypedName> binding{};
    for (ccl::rslang::Index i = 1; i < count; ++i) {
      const auto actual = Term(node.Child(i));
      if (!actual.has_value()) { return std::nullopt; }
      const auto declared = RenameRadicals(signature->args[static_cast<size_t>(i) - 1].second, name);
      if (!Unify(binding, declared, *actual)) { return std::nullopt; }
    }
    if (signature->result.IsLogic()) { return Type::Logic(); }
    return Instantiate(RenameRadicals(signature->result, name), binding);
  }

  //! [x1 in S1, ..., xn in Sn] body
  MaybeType Definition(Cursor node) {
    if (node.ChildrenCount() != 2 || node.Child(0)->id != TokenID::NT_ARGUMENTS) { return std::nullopt; }
    const auto outer = scope.size();
    const auto params = node.Child(0);
    for (ccl::rslang::Index i = 0; i < params.ChildrenCount(); ++i) {
      const auto param = params.Child(i);
      if (param->id != TokenID::NT_ARG_DECL || param.ChildrenCount() != 2
          || param.Child(0)->id != TokenID::ID_LOCAL) {
        return std::nullopt;
      }
      inSignature = true;
      const auto domain = Elements(param.Child(1));              // may mention earlier parameters and radicals
      inSignature = false;
      const auto* paramName = NameOf(param.Child(0));
      if (paramName == nullptr) { return std::nullopt; }
      const auto& name = *paramName;
      const bool reused = std::find(everDeclared.begin(), everDeclared.end(), name) != everDeclared.end();
      if (!domain.has_value() || !Declare(name, *domain)) { return std::nullopt; }
      if (!reused) { declaredArgs.emplace_back(name, *domain); }
    }
    const auto body = Infer(node.Child(1));
    if (!body.has_value()) { return std::nullopt; }
    scope.resize(outer, TypedName{});
    return body;
  }

  //! R{ x := init | [condition |] step }: the type is the fix-point of the step type, starting from the init type
  MaybeType Recursion(Cursor node) {
    const bool full = node->id == TokenID::NT_RECURSIVE_FULL;
    if (node.ChildrenCount() != (full ? 4 : 3)) { return std::nullopt; }
    const auto stepNode = node.Child(static_cast<ccl::rslang::Index>(full ? 3 : 2));
    const auto outer = scope.size();

    const auto init = Term(node.Child(1));
    if (!init.has_value() || !Bind(node.Child(0), *init)) { return std::nullopt; }
    auto current = Term(stepNode);
    if (!current.has_value() || !Compatible(*current, *init)) { return std::nullopt; }
    bool stable = false;                                         // the type must reach a fix-point
    for (int round = 0; round < 5; ++round) {                    // deduction depth limit
      scope.resize(outer, TypedName{});
      if (!Bind(node.Child(0), *current)) { return std::nullopt; }
      auto next = Term(stepNode);
      if (!next.has_value()) { return std::nullopt; }
      if (*next == *current) { stable = true; break; }
      current = std::move(next);
    }
    if (!stable) { return std::nullopt; }
    if (full && !Formula(node.Child(2))) { return std::nullopt; }
    scope.resize(outer, TypedName{});
    return current;
  }

  //! I{ value | block; block; ... } with blocks  x :in S  |  x := e  |  formula
  MaybeType Imperative(Cursor node) {
    const auto count = node.ChildrenCount();
    if (count < 2) { return std::nullopt; }
    const auto outer = scope.size();
    for (ccl::rslang::Index i = 1; i < count; ++i) {
      const auto block = node.Child(i);
      if (block->id == TokenID::ITERATE || block->id == TokenID::ASSIGN) {
        if (block.ChildrenCount() != 2) { return std::nullopt; }
        const auto value = block->id == TokenID::ITERATE ? Elements(block.Child(1)) : Term(block.Child(1));
        if (!value.has_value() || !Bind(block.Child(0), *value)) { return std::nullopt; }
      } else if (!Formula(block)) {
        return std::nullopt;
      }
    }
    const auto value = Term(node.Child(0));
    if (!value.has_value()) { return std::nullopt; }
    scope.resize(outer, TypedName{});
    return Type::Set(*value);
  }

  //! Structure of a generic set: built from Z, global names, powerset, product and enumeration only
  static bool IsStructureExpression(Cursor node) {
    switch (node->id) {
    case TokenID::LIT_INTSET:
    case TokenID::ID_GLOBAL:
    case TokenID::BOOLEAN:
    case TokenID::DECART:
    case TokenID::NT_ENUMERATION:
      break;
    default:
      return false;
    }
    for (ccl::rslang::Index i = 0; i < node.ChildrenCount(); ++i) {
      if (!IsStructureExpression(node.Child(i))) { return false; }
    }
    return true;
  }
};

} // namespace detail

inline Result Check(const ccl::rslang::SyntaxTree& ast, const TypeEnv& env, uint32_t quirks = QUIRK_NONE) {
  detail::Checker checker{ env };
  checker.quirks = quirks;
  Result result{};
  auto type = checker.Infer(ast.Root());
  if (checker.unsupported) {
    result.verdict = Verdict::UNSUPPORTED;
  } else if (type.has_value() && type->kind != Kind::NONE) {
    result.verdict = Verdict::ACCEPT;
    result.type = std::move(*type);
    result.declaredArgs = std::move(checker.declaredArgs);
  }
  return result;
}

} // namespace ref
