// ref_eval.h -- reference evaluator (oracle) for RSLang expressions, independent of /repo's
// ASTInterpreter / Normalizer / StructuredData.  It only uses /repo's public headers to WALK the
// syntax tree produced by the real parser (SyntaxTree::Cursor, Token, TokenData) and, in
// FromSData/Same, to READ a real value through its public API.
//
// WHAT IT IS
//   A plain recursive function over the (un-normalised, type-checked) syntax tree that computes the
//   value standard set-theoretic semantics assigns to the expression under a finite interpretation
//   of the global names.  Values are ref::Value (ref_sets.h): canonical finite sets, tuples, int32.
//   No laziness, no caches, no tree rewriting: binders enumerate their domain, tuple patterns bind
//   by projection, term-function calls bind parameters to the argument expressions.
//
// INPUT
//   ast       : tree from ccl::rslang::Parser (optionally `D1:==expr`: the expression is evaluated).
//               It must have passed ccl::rslang::TypeAuditor; ill-typed trees give FAIL/F_MALFORMED.
//   DataEnv   : globals   -- value of each global identifier (X1, C1, S1, D1 ...) the expression or a
//                            called function may mention; absent name => FAIL/F_MISSING.
//               functions -- for each term-function / predicate name the SyntaxTree of its
//                            definition `F1:==[a∈ℬ(X1), b∈R1] body` (root PUNC_DEFINE, or a bare
//                            NT_FUNC_DEFINITION).  This is exactly what the real Interpreter's
//                            SyntaxTreeContext callback returns, so the harness can share the trees.
//   setSizeLimit : no set with more elements is ever built (ℬ and × are checked before building);
//                  exceeding it => FAIL/F_LIMIT (an "inconclusive" answer of the oracle).
//   stepLimit    : bound on the total number of binder-body evaluations (quantifier / set-builder /
//                  imperative / recursion steps), FAIL/F_LIMIT beyond it (non-terminating R{..}).
//
// SEMANTICS (one line per construct; [[e]] is the value of e in the current variable environment)
//   integer literal n            : the integer n.          ∅ : {}.         Z : FAIL/F_INTSET (infinite)
//   precondition                 : every global that remains after replacing calls by bodies with
//                                  arguments substituted has a value in DataEnv, evaluated or not;
//                                  a called function has a definition; else FAIL/F_MISSING.
//   global X                     : its value in DataEnv.   local x : value bound by nearest binder,
//                                  or, for a function parameter, [[argument expression]] in the
//                                  caller's environment (substitution = call by name).
//   a+b, a-b, a*b                : integer arithmetic; result outside int32 => FAIL/F_OVERFLOW.
//   card(S)                      : number of elements.     a<b, a>b, a≤b, a≥b : integer order.
//   a=b, a≠b                     : mathematical (extensional / positional) equality.
//   ¬P, P&Q, P∨Q, P⇒Q, P⇔Q       : classical; & ∨ ⇒ do not evaluate Q when P decides (left to right).
//   ∀x∈S P, ∃x∈S P               : conjunction / disjunction over the elements of [[S]];
//                                  `∀x,y∈S` = ∀x∈S ∀y∈S; `∀(x,y)∈S` binds x,y to the components.
//   a∈S a∉S, A⊆B, A⊂B (proper), A⊄B (= ¬(A⊂B))
//   A∪B A∩B A\B A∆B              : as usual.     A×B×C : set of TRIPLES (n-ary, flat); (A×B)×C nests.
//   ℬ(S)                         : set of all subsets.   (a,b,..) : tuple.   {a,b,..} : finite set.
//   bool(a) = {a}.   debool(S)   : the element of a singleton, FAIL/F_DEBOOL if card(S) ≠ 1.
//   red(S)                       : ⋃S.
//   pr_{i..}(t)                  : tuple of components i.. of t (one index: the component itself).
//   Pr_{i..}(S)                  : { pr_{i..}(t) | t∈S }.
//   Fi_{i1..ik}[P1..Pk](S)       : { t∈S | pr_{i1}(t)∈P1 & .. & pr_{ik}(t)∈Pk }.
//   Fi_{i1..ik}[P](S)  (k>1)     : { t∈S | pr_{i1..ik}(t) ∈ P }.
//                                  S is evaluated first; if S=∅ the result is ∅ and the parameters
//                                  are not evaluated; parameters left to right, an empty one gives ∅.
//   D{x∈S | P}  / {x∈S | P}      : { x∈[[S]] | P(x) }, x may be a tuple pattern.
//   I{e | b1; ..; bn}            : { [[e]]σ | σ satisfies b1..bn in order } where a block is
//                                  `x:∈S` (for each element), `x:=v` (let) or a condition (guard).
//   R{x:=init | cond | step}     : x0=init, x(n+1)=step(xn); value = first xn with ¬cond(xn) or
//   R{x:=init | step}              step(xn)=xn  (short form: cond ≡ true).
//   F[a1..an]                    : [[body]] with parameters bound (by name) to the arguments; the
//                                  body sees only its parameters and the globals.
//
// FAILURES ("undefinedness") AND HOW TO COMPARE WITH THE REAL INTERPRETER
//   EvalResult.kind is the value under the *lenient* reading: a sub-expression that is not needed
//   (short-circuited connective, unused parameter, a quantifier that is decided by another element)
//   may be undefined without making the whole undefined.  A quantifier is evaluated on ALL elements:
//   it is decided if some element gives the deciding truth value, else FAIL if some element failed.
//   EvalResult.sawFailure tells that SOME sub-evaluation performed by the oracle failed (class of the
//   first one in firstFailClass, all classes in failMask).  The real interpreter enumerates domains
//   in its own order and stops early, so the sound two-sided check is:
//     real returned a value  =>  oracle kind is not FAIL and the values agree (Same / truth), unless
//                                oracle failClass is F_LIMIT / F_OVERFLOW / F_DEPTH (inconclusive);
//     real failed            =>  oracle kind is FAIL, or a class in oracle.failMask justifies the
//                                real error, or the real error is a documented resource limit.
//   With sawFailure==false (the normal case) this is exact agreement.
//   If failMask has F_OVERFLOW or F_DEPTH, running the real interpreter is undefined behaviour /
//   stack overflow (known defects); F_MALFORMED on an expression the real auditor accepted means
//   the auditor accepted an ill-typed expression (known for recursions whose type never stabilises).
//
// CODE CONSTRAINTS: header-only; no iostream/sstream/regex/locale/unordered containers/
//   std::function/threads/static mutable state; throws nothing (TokenData accessors are guarded by
//   IsInt/IsText/IsTuple); symbolic data only reaches ref::Compare and the int32 arithmetic below.
#pragma once

#include "ref_sets.h"

#include "ccl/rslang/SyntaxTree.h"
#include "ccl/rslang/StructuredData.h"

#include <cstdint>
#include <optional>
#include <string>
#include <utility>
#include <vector>

namespace ref {

enum FailClass : int {
  F_NONE = 0,
  F_LIMIT = 1,      // oracle resource bound (set size / steps / call depth): inconclusive
  F_DEBOOL = 2,     // debool of a non-singleton            (real: ValueEID::invalidDebool)
  F_MISSING = 3,    // global or function without a value   (real: globalMissingValue / unknownError)
  F_OVERFLOW = 4,   // integer result outside int32         (real: signed overflow, a known defect)
  F_INTSET = 5,     // Z has no finite value                (real: ValueEID::iterateInfinity)
  F_MALFORMED = 6,  // tree is not a well-typed expression, or operands of = ∈ ⊆ ∪.. {..} met at run time
                    // cannot be of one type (SameShape)      (real: unknownError or garbage)
  F_DEPTH = 7       // R{..} builds ever deeper nested values, e.g. R{a:=∅ | {a}}, which the real
                    // auditor accepts although the type of `a` never stabilises: inconclusive
};

struct DataEnv {
  std::vector<std::pair<std::string, Value>> globals{};
  std::vector<std::pair<std::string, const ccl::rslang::SyntaxTree*>> functions{};
};

struct EvalResult {
  enum Kind : uint8_t { VALUE, LOGIC, FAIL };
  Kind kind{ FAIL };
  Value value{};            // kind == VALUE
  bool truth{ false };      // kind == LOGIC
  int failClass{ F_NONE };  // kind == FAIL
  bool sawFailure{ false }; // some sub-evaluation failed (even if the result is defined)
  int firstFailClass{ F_NONE };
  uint32_t failMask{ 0 };   // bit (1 << class) for every failure class met by a sub-evaluation
  uint32_t steps{ 0 };      // binder-body evaluations performed
};

namespace detail {

using ccl::rslang::SyntaxTree;
using ccl::rslang::TokenID;
using ccl::rslang::Index;
using Cursor = SyntaxTree::Cursor;

//! Variable environment: a chain of frames, innermost first.
struct Frame {
  struct Thunk {
    std::string name;
    Cursor expr;       // argument expression of a function call ...
    const Frame* env;  // ... to be evaluated in the caller's environment
  };
  const Frame* parent{ nullptr };
  std::vector<std::pair<std::string, Value>> vals{};
  std::vector<Thunk> thunks{};
};

struct R {
  EvalResult::Kind k{ EvalResult::FAIL };
  Value v{};
  bool b{ false };
  int fc{ F_NONE };
};

class Evaluator {
  static constexpr uint32_t MAX_CALL_DEPTH = 64;
  static constexpr uint32_t MAX_NESTING = 16;  // of a value produced by a recursion step

  const DataEnv& env;
  const uint32_t setLimit;
  const uint32_t stepLimit;
  uint32_t callDepth{ 0 };

public:
  uint32_t steps{ 0 };
  bool sawFailure{ false };
  int firstFail{ F_NONE };
  uint32_t failMask{ 0 };

  Evaluator(const DataEnv& env, uint32_t setLimit, uint32_t stepLimit)
    : env{ env }, setLimit{ setLimit }, stepLimit{ stepLimit } {}

  R Root(Cursor root) {
    if (root->id == TokenID::PUNC_DEFINE) {  // `D1:==expr` evaluates expr
      if (root.ChildrenCount() != 2 || root(0).id != TokenID::ID_GLOBAL) return Fail(F_MALFORMED);
      root = root.Child(1);
    }
    if (!NamesDefined(root, nullptr, 0)) return Fail(F_MISSING);
    return Ev(root, nullptr);
  }

  //! Interpretability precondition: every global that occurs in the expression once calls are
  //  replaced by bodies with arguments substituted for parameters has a value -- wherever it
  //  occurs, evaluated or not (an argument whose parameter is not used by the body disappears).
  //  `params`: frame with the thunks of the enclosing function call (nullptr at top level).
  bool NamesDefined(Cursor it, const Frame* params, uint32_t depth) const {
    if (it->id == TokenID::ID_GLOBAL || it->id == TokenID::ID_FUNCTION || it->id == TokenID::ID_PREDICATE) {
      return it->data.IsText() && FindGlobal(it->data.ToText()) != nullptr;
    }
    if (it->id == TokenID::ID_LOCAL && params != nullptr && it->data.IsText()) {
      for (const auto& t : params->thunks) {
        if (t.name == it->data.ToText()) return NamesDefined(t.expr, t.env, depth);
      }
      return true;
    }
    if (it->id == TokenID::NT_FUNC_CALL && it.ChildrenCount() >= 2 && it(0).data.IsText()) {
      const SyntaxTree* tree = FindFunction(it(0).data.ToText());
      if (tree == nullptr || depth >= MAX_CALL_DEPTH) return false;
      Frame f{ nullptr };
      Cursor body = tree->Root();
      if (!BindParameters(it, params, *tree, f, body)) {
        return true;  // malformed definition: reported by Call
      }
      return NamesDefined(body, &f, depth + 1);
    }
    for (Index i = 0; i < it.ChildrenCount(); ++i) {
      if (!NamesDefined(it.Child(i), params, depth)) return false;
    }
    return true;
  }

  //! Frame f := parameters of the function defined by `tree` bound to the argument expressions of
  //  `call` (to be evaluated in `callerEnv`); body := the function body. False if malformed.
  static bool BindParameters(Cursor call, const Frame* callerEnv, const SyntaxTree& tree, Frame& f, Cursor& body) {
    Cursor def = tree.Root();
    if (def->id == TokenID::PUNC_DEFINE) {
      if (def.ChildrenCount() != 2) return false;
      def = def.Child(1);
    }
    if (def->id != TokenID::NT_FUNC_DEFINITION || def.ChildrenCount() != 2) return false;
    const Cursor params = def.Child(0);
    if (params->id != TokenID::NT_ARGUMENTS || params.ChildrenCount() != call.ChildrenCount() - 1) return false;
    for (Index i = 0; i < params.ChildrenCount(); ++i) {
      const Cursor decl = params.Child(i);
      if (decl->id != TokenID::NT_ARG_DECL || decl.ChildrenCount() != 2
          || decl(0).id != TokenID::ID_LOCAL || !decl(0).data.IsText()) {
        return false;
      }
      f.thunks.push_back(Frame::Thunk{ decl(0).data.ToText(), call.Child(static_cast<Index>(i + 1)), callerEnv });
    }
    body = def.Child(1);
    return true;
  }

  const Value* FindGlobal(const std::string& name) const {
    for (const auto& g : env.globals) {
      if (g.first == name) return &g.second;
    }
    return nullptr;
  }
  const SyntaxTree* FindFunction(const std::string& name) const {
    for (const auto& f : env.functions) {
      if (f.first == name) return f.second;
    }
    return nullptr;
  }

private:
  // ---- result constructors -------------------------------------------------------------------
  R Fail(int fc) {
    if (!sawFailure) {
      sawFailure = true;
      firstFail = fc;
    }
    failMask |= uint32_t{ 1 } << static_cast<uint32_t>(fc);
    return Refail(fc);
  }
  static R Refail(int fc) {
    R r;
    r.k = EvalResult::FAIL;
    r.fc = fc;
    return r;
  }
  static R Logic(bool b) {
    R r;
    r.k = EvalResult::LOGIC;
    r.b = b;
    return r;
  }
  R Val(Value v) {
    if (v.kind == Value::SET && v.items.size() > setLimit) return Fail(F_LIMIT);
    R r;
    r.k = EvalResult::VALUE;
    r.v = std::move(v);
    return r;
  }
  R FromOpt(std::optional<Value> v, int fcIfEmpty) {
    if (!v.has_value()) return Fail(fcIfEmpty);
    return Val(std::move(v.value()));
  }
  bool Step() {
    if (steps >= stepLimit) return false;
    ++steps;
    return true;
  }

  // ---- typed child evaluation ----------------------------------------------------------------
  R EvLogic(Cursor it, const Frame* fr) {
    R r = Ev(it, fr);
    if (r.k == EvalResult::VALUE) return Fail(F_MALFORMED);
    return r;
  }
  R EvVal(Cursor it, const Frame* fr) {
    R r = Ev(it, fr);
    if (r.k == EvalResult::LOGIC) return Fail(F_MALFORMED);
    return r;
  }
  R EvKind(Cursor it, const Frame* fr, Value::Kind kind) {
    R r = EvVal(it, fr);
    if (r.k == EvalResult::VALUE && r.v.kind != kind) return Fail(F_MALFORMED);
    return r;
  }
  R EvSet(Cursor it, const Frame* fr) { return EvKind(it, fr, Value::SET); }
  R EvInt(Cursor it, const Frame* fr) { return EvKind(it, fr, Value::ELEM); }

  // ---- names -----------------------------------------------------------------------------------
  R Global(Cursor it) {
    if (!it->data.IsText()) return Fail(F_MALFORMED);
    const Value* value = FindGlobal(it->data.ToText());
    return value != nullptr ? Val(*value) : Fail(F_MISSING);
  }

  R Local(Cursor it, const Frame* fr) {
    if (!it->data.IsText()) return Fail(F_MALFORMED);
    const std::string& name = it->data.ToText();
    for (const Frame* f = fr; f != nullptr; f = f->parent) {
      for (size_t i = f->vals.size(); i-- > 0;) {
        if (f->vals[i].first == name) return Val(f->vals[i].second);
      }
      for (const auto& t : f->thunks) {
        if (t.name == name) return Ev(t.expr, t.env);
      }
    }
    return Fail(F_MALFORMED);
  }

  //! Nesting depth of v exceeds `bound` (never descends deeper than bound + 1 levels).
  static bool DeeperThan(const Value& v, uint32_t bound) {
    if (v.kind == Value::ELEM) return false;
    if (bound == 0) return true;
    for (const auto& item : v.items) {
      if (DeeperThan(item, bound - 1)) return true;
    }
    return false;
  }

  //! Bind declaration `x` or tuple pattern `(x,(y,z))` to value v by projection.
  static bool Bind(Cursor decl, const Value& v, Frame& f) {
    if (decl->id == TokenID::ID_LOCAL) {
      if (!decl->data.IsText()) return false;
      f.vals.emplace_back(decl->data.ToText(), v);
      return true;
    }
    if (decl->id != TokenID::NT_TUPLE_DECL || v.kind != Value::TUPLE
        || static_cast<size_t>(decl.ChildrenCount()) != v.items.size()) {
      return false;
    }
    for (Index i = 0; i < decl.ChildrenCount(); ++i) {
      if (!Bind(decl.Child(i), v.items[static_cast<size_t>(i)], f)) return false;
    }
    return true;
  }

  // ---- the evaluator ---------------------------------------------------------------------------
  R Ev(Cursor it, const Frame* fr) {
    const Index n = it.ChildrenCount();
    switch (it->id) {
    default:
      return Fail(F_MALFORMED);

    case TokenID::ID_GLOBAL:
    case TokenID::ID_FUNCTION:
    case TokenID::ID_PREDICATE:
      return n == 0 ? Global(it) : Fail(F_MALFORMED);
    case TokenID::ID_LOCAL:
      return n == 0 ? Local(it, fr) : Fail(F_MALFORMED);
    case TokenID::LIT_INTEGER:
      return it->data.IsInt() ? Val(MakeElem(it->data.ToInt())) : Fail(F_MALFORMED);
    case TokenID::LIT_EMPTYSET:
      return Val(EmptySet());
    case TokenID::LIT_INTSET:
      return Fail(F_INTSET);

    case TokenID::PLUS:
    case TokenID::MINUS:
    case TokenID::MULTIPLY:
      return n == 2 ? Arithmetic(it, fr) : Fail(F_MALFORMED);
    case TokenID::CARD: {
      if (n != 1) return Fail(F_MALFORMED);
      R s = EvSet(it.Child(0), fr);
      if (s.k == EvalResult::FAIL) return s;
      return Val(MakeElem(static_cast<int32_t>(Cardinality(s.v))));  // <= setLimit < 2^31 checked in Eval
    }

    case TokenID::GREATER:
    case TokenID::LESSER:
    case TokenID::GREATER_OR_EQ:
    case TokenID::LESSER_OR_EQ: {
      if (n != 2) return Fail(F_MALFORMED);
      R a = EvInt(it.Child(0), fr);
      if (a.k == EvalResult::FAIL) return a;
      R b = EvInt(it.Child(1), fr);
      if (b.k == EvalResult::FAIL) return b;
      switch (it->id) {
      default:
      case TokenID::GREATER: return Logic(a.v.elem > b.v.elem);
      case TokenID::LESSER: return Logic(a.v.elem < b.v.elem);
      case TokenID::GREATER_OR_EQ: return Logic(a.v.elem >= b.v.elem);
      case TokenID::LESSER_OR_EQ: return Logic(a.v.elem <= b.v.elem);
      }
    }

    case TokenID::EQUAL:
    case TokenID::NOTEQUAL: {
      if (n != 2) return Fail(F_MALFORMED);
      R a = EvVal(it.Child(0), fr);
      if (a.k == EvalResult::FAIL) return a;
      R b = EvVal(it.Child(1), fr);
      if (b.k == EvalResult::FAIL) return b;
      if (!SameShape(a.v, b.v)) return Fail(F_MALFORMED);
      return Logic(Equal(a.v, b.v) == (it->id == TokenID::EQUAL));
    }

    case TokenID::NOT: {
      if (n != 1) return Fail(F_MALFORMED);
      R a = EvLogic(it.Child(0), fr);
      if (a.k == EvalResult::FAIL) return a;
      return Logic(!a.b);
    }
    case TokenID::AND:
    case TokenID::OR:
    case TokenID::IMPLICATION:
    case TokenID::EQUIVALENT: {
      if (n != 2) return Fail(F_MALFORMED);
      R a = EvLogic(it.Child(0), fr);
      if (a.k == EvalResult::FAIL) return a;
      if (it->id == TokenID::AND && !a.b) return Logic(false);
      if (it->id == TokenID::OR && a.b) return Logic(true);
      if (it->id == TokenID::IMPLICATION && !a.b) return Logic(true);
      R b = EvLogic(it.Child(1), fr);
      if (b.k == EvalResult::FAIL) return b;
      if (it->id == TokenID::EQUIVALENT) return Logic(a.b == b.b);
      return Logic(b.b);  // AND with a true, OR with a false, IMPLICATION with a true
    }

    case TokenID::FORALL:
    case TokenID::EXISTS: {
      if (n != 3) return Fail(F_MALFORMED);
      R dom = EvSet(it.Child(1), fr);
      if (dom.k == EvalResult::FAIL) return dom;
      std::vector<Cursor> vars{};
      if (it(0).id == TokenID::NT_ENUM_DECL) {
        for (Index i = 0; i < it.Child(0).ChildrenCount(); ++i) {
          vars.push_back(it.Child(0).Child(i));
        }
      } else {
        vars.push_back(it.Child(0));
      }
      return Quantifier(it->id == TokenID::FORALL, vars, 0, dom.v, it.Child(2), fr);
    }

    case TokenID::IN:
    case TokenID::NOTIN: {
      if (n != 2) return Fail(F_MALFORMED);
      R a = EvVal(it.Child(0), fr);
      if (a.k == EvalResult::FAIL) return a;
      R s = EvSet(it.Child(1), fr);
      if (s.k == EvalResult::FAIL) return s;
      if (!SameShape(Singleton(a.v), s.v)) return Fail(F_MALFORMED);
      return Logic(Contains(s.v, a.v) == (it->id == TokenID::IN));
    }
    case TokenID::SUBSET:
    case TokenID::SUBSET_OR_EQ:
    case TokenID::NOTSUBSET: {
      if (n != 2) return Fail(F_MALFORMED);
      R a = EvSet(it.Child(0), fr);
      if (a.k == EvalResult::FAIL) return a;
      R b = EvSet(it.Child(1), fr);
      if (b.k == EvalResult::FAIL) return b;
      if (!SameShape(a.v, b.v)) return Fail(F_MALFORMED);
      const bool subsetEq = IsSubsetOrEq(a.v, b.v);
      const bool proper = subsetEq && !Equal(a.v, b.v);
      if (it->id == TokenID::SUBSET_OR_EQ) return Logic(subsetEq);
      return Logic(proper == (it->id == TokenID::SUBSET));
    }

    case TokenID::UNION:
    case TokenID::INTERSECTION:
    case TokenID::SET_MINUS:
    case TokenID::SYMMINUS: {
      if (n != 2) return Fail(F_MALFORMED);
      R a = EvSet(it.Child(0), fr);
      if (a.k == EvalResult::FAIL) return a;
      R b = EvSet(it.Child(1), fr);
      if (b.k == EvalResult::FAIL) return b;
      if (!SameShape(a.v, b.v)) return Fail(F_MALFORMED);
      switch (it->id) {
      default:
      case TokenID::UNION: return Val(Union(a.v, b.v));
      case TokenID::INTERSECTION: return Val(Intersect(a.v, b.v));
      case TokenID::SET_MINUS: return Val(Diff(a.v, b.v));
      case TokenID::SYMMINUS: return Val(SymDiff(a.v, b.v));
      }
    }

    case TokenID::DECART: {
      if (n < 2) return Fail(F_MALFORMED);
      std::vector<Value> factors{};
      for (Index i = 0; i < n; ++i) {
        R f = EvSet(it.Child(i), fr);
        if (f.k == EvalResult::FAIL) return f;
        factors.push_back(std::move(f.v));
      }
      return FromOpt(Product(factors, setLimit), F_LIMIT);
    }
    case TokenID::BOOLEAN: {
      if (n != 1) return Fail(F_MALFORMED);
      R s = EvSet(it.Child(0), fr);
      if (s.k == EvalResult::FAIL) return s;
      return FromOpt(Powerset(s.v, setLimit), F_LIMIT);
    }

    case TokenID::NT_TUPLE:
    case TokenID::NT_ENUMERATION: {
      if (n < (it->id == TokenID::NT_TUPLE ? 2 : 1)) return Fail(F_MALFORMED);
      std::vector<Value> parts{};
      for (Index i = 0; i < n; ++i) {
        R c = EvVal(it.Child(i), fr);
        if (c.k == EvalResult::FAIL) return c;
        parts.push_back(std::move(c.v));
      }
      if (it->id == TokenID::NT_TUPLE) return Val(MakeTuple(std::move(parts)));
      Value result = MakeSet(std::move(parts));
      if (!SameShape(result, result)) return Fail(F_MALFORMED);
      return Val(std::move(result));
    }
    case TokenID::BOOL: {
      if (n != 1) return Fail(F_MALFORMED);
      R a = EvVal(it.Child(0), fr);
      if (a.k == EvalResult::FAIL) return a;
      return Val(Singleton(std::move(a.v)));
    }
    case TokenID::DEBOOL: {
      if (n != 1) return Fail(F_MALFORMED);
      R s = EvSet(it.Child(0), fr);
      if (s.k == EvalResult::FAIL) return s;
      return FromOpt(Debool(s.v), F_DEBOOL);
    }
    case TokenID::REDUCE: {
      if (n != 1) return Fail(F_MALFORMED);
      R s = EvSet(it.Child(0), fr);
      if (s.k == EvalResult::FAIL) return s;
      for (const auto& inner : s.v.items) {
        if (inner.kind != Value::SET) return Fail(F_MALFORMED);
      }
      return Val(Reduce(s.v));
    }
    case TokenID::SMALLPR: {
      if (n != 1 || !it->data.IsTuple()) return Fail(F_MALFORMED);
      R t = EvVal(it.Child(0), fr);
      if (t.k == EvalResult::FAIL) return t;
      return FromOpt(TupleProjection(t.v, it->data.ToTuple()), F_MALFORMED);
    }
    case TokenID::BIGPR: {
      if (n != 1 || !it->data.IsTuple()) return Fail(F_MALFORMED);
      R s = EvSet(it.Child(0), fr);
      if (s.k == EvalResult::FAIL) return s;
      return FromOpt(Projection(s.v, it->data.ToTuple()), F_MALFORMED);
    }
    case TokenID::FILTER:
      return (n >= 2 && it->data.IsTuple()) ? Filter(it, fr) : Fail(F_MALFORMED);

    case TokenID::NT_DECLARATIVE_EXPR: {
      if (n != 3) return Fail(F_MALFORMED);
      R dom = EvSet(it.Child(1), fr);
      if (dom.k == EvalResult::FAIL) return dom;
      Value result{};
      for (const auto& e : dom.v.items) {
        if (!Step()) return Fail(F_LIMIT);
        Frame f{ fr };
        if (!Bind(it.Child(0), e, f)) return Fail(F_MALFORMED);
        R p = EvLogic(it.Child(2), &f);
        if (p.k == EvalResult::FAIL) return p;
        if (p.b) {
          result.items.push_back(e);  // subsequence of a canonical sequence is canonical
        }
      }
      return Val(std::move(result));
    }

    case TokenID::NT_IMPERATIVE_EXPR: {
      if (n < 2) return Fail(F_MALFORMED);
      Value result{};
      R status = Imperative(it, 1, fr, result);
      if (status.k == EvalResult::FAIL) return status;
      return Val(std::move(result));
    }

    case TokenID::NT_RECURSIVE_FULL:
    case TokenID::NT_RECURSIVE_SHORT: {
      const bool full = it->id == TokenID::NT_RECURSIVE_FULL;
      if (n != (full ? 4 : 3)) return Fail(F_MALFORMED);
      R cur = EvVal(it.Child(1), fr);
      if (cur.k == EvalResult::FAIL) return cur;
      for (;;) {
        if (!Step()) return Fail(F_LIMIT);
        Frame f{ fr };
        if (!Bind(it.Child(0), cur.v, f)) return Fail(F_MALFORMED);
        if (full) {
          R cond = EvLogic(it.Child(2), &f);
          if (cond.k == EvalResult::FAIL) return cond;
          if (!cond.b) return cur;
        }
        R next = EvVal(it.Child(full ? 3 : 2), &f);
        if (next.k == EvalResult::FAIL) return next;
        if (DeeperThan(next.v, MAX_NESTING)) return Fail(F_DEPTH);
        if (Equal(next.v, cur.v)) return cur;
        cur = std::move(next);
      }
    }

    case TokenID::NT_FUNC_CALL:
      return n >= 2 ? Call(it, fr) : Fail(F_MALFORMED);
    }
  }

  R Arithmetic(Cursor it, const Frame* fr) {
    R a = EvInt(it.Child(0), fr);
    if (a.k == EvalResult::FAIL) return a;
    R b = EvInt(it.Child(1), fr);
    if (b.k == EvalResult::FAIL) return b;
    const int64_t x = a.v.elem;
    const int64_t y = b.v.elem;
    int64_t z = 0;  // |x|,|y| <= 2^31 so none of these overflows int64
    switch (it->id) {
    default:
    case TokenID::PLUS: z = x + y; break;
    case TokenID::MINUS: z = x - y; break;
    case TokenID::MULTIPLY: z = x * y; break;
    }
    if (z < int64_t{ INT32_MIN } || z > int64_t{ INT32_MAX }) {
      return Fail(F_OVERFLOW);
    }
    return Val(MakeElem(static_cast<int32_t>(z)));
  }

  //! Q v[k]∈D Q v[k+1]∈D ... body, all elements evaluated; decided by any deciding element.
  R Quantifier(bool universal, const std::vector<Cursor>& vars, size_t k, const Value& dom, Cursor body, const Frame* fr) {
    if (k == vars.size()) return EvLogic(body, fr);
    bool decided = false;
    bool failed = false;
    int failClass = F_NONE;
    for (const auto& e : dom.items) {
      R r = Refail(F_LIMIT);
      Frame f{ fr };
      if (!Step()) {
        r = Fail(F_LIMIT);
      } else if (!Bind(vars[k], e, f)) {
        r = Fail(F_MALFORMED);
      } else {
        r = Quantifier(universal, vars, k + 1, dom, body, &f);
      }
      if (r.k == EvalResult::FAIL) {
        if (!failed) {
          failed = true;
          failClass = r.fc;
        }
      } else if (r.b != universal) {
        decided = true;
      }
    }
    if (decided) return Logic(!universal);
    if (failed) return Refail(failClass);
    return Logic(universal);
  }

  R Filter(Cursor it, const Frame* fr) {
    const Index n = it.ChildrenCount();
    const std::vector<Index>& idx = it->data.ToTuple();
    R arg = EvSet(it.Child(static_cast<Index>(n - 1)), fr);
    if (arg.k == EvalResult::FAIL) return arg;
    if (arg.v.items.empty()) return Val(EmptySet());
    const bool perIndex = static_cast<size_t>(n - 1) == idx.size();  // Fi1,2[P1,P2] vs Fi1,2[P]
    if (!perIndex && n != 2) return Fail(F_MALFORMED);
    std::vector<Value> params{};
    for (Index i = 0; i + 1 < n; ++i) {
      R p = EvSet(it.Child(i), fr);
      if (p.k == EvalResult::FAIL) return p;
      if (p.v.items.empty()) return Val(EmptySet());
      params.push_back(std::move(p.v));
    }
    Value result{};
    for (const auto& t : arg.v.items) {
      bool keep = true;
      if (perIndex) {
        for (size_t i = 0; i < idx.size(); ++i) {
          const auto comp = TupleProjection(t, std::vector<Index>{ idx[i] });
          if (!comp.has_value()) return Fail(F_MALFORMED);
          if (!Contains(params[i], comp.value())) {
            keep = false;
          }
        }
      } else {
        const auto comp = TupleProjection(t, idx);
        if (!comp.has_value()) return Fail(F_MALFORMED);
        keep = Contains(params[0], comp.value());
      }
      if (keep) {
        result.items.push_back(t);  // subsequence of a canonical sequence is canonical
      }
    }
    return Val(std::move(result));
  }

  //! Process blocks block..n-1 of I{e | blocks} under fr, adding [[e]] to result at the end.
  R Imperative(Cursor it, Index block, const Frame* fr, Value& result) {
    if (block == it.ChildrenCount()) {
      R e = EvVal(it.Child(0), fr);
      if (e.k == EvalResult::FAIL) return e;
      Insert(result, std::move(e.v));
      if (result.items.size() > setLimit) return Fail(F_LIMIT);
      return Logic(true);
    }
    if (!Step()) return Fail(F_LIMIT);
    const Cursor b = it.Child(block);
    if (b->id == TokenID::ITERATE) {
      if (b.ChildrenCount() != 2) return Fail(F_MALFORMED);
      R dom = EvSet(b.Child(1), fr);
      if (dom.k == EvalResult::FAIL) return dom;
      for (const auto& e : dom.v.items) {
        Frame f{ fr };
        if (!Bind(b.Child(0), e, f)) return Fail(F_MALFORMED);
        R rest = Imperative(it, static_cast<Index>(block + 1), &f, result);
        if (rest.k == EvalResult::FAIL) return rest;
      }
      return Logic(true);
    }
    if (b->id == TokenID::ASSIGN) {
      if (b.ChildrenCount() != 2) return Fail(F_MALFORMED);
      R v = EvVal(b.Child(1), fr);
      if (v.k == EvalResult::FAIL) return v;
      Frame f{ fr };
      if (!Bind(b.Child(0), v.v, f)) return Fail(F_MALFORMED);
      return Imperative(it, static_cast<Index>(block + 1), &f, result);
    }
    R guard = EvLogic(b, fr);
    if (guard.k == EvalResult::FAIL) return guard;
    if (!guard.b) return Logic(true);
    return Imperative(it, static_cast<Index>(block + 1), fr, result);
  }

  R Call(Cursor it, const Frame* fr) {
    if (!it(0).data.IsText()) return Fail(F_MALFORMED);
    const SyntaxTree* tree = FindFunction(it(0).data.ToText());
    if (tree == nullptr) return Fail(F_MISSING);
    Frame f{ nullptr };  // the body sees its parameters and the globals only
    Cursor body = tree->Root();
    if (!BindParameters(it, fr, *tree, f, body)) return Fail(F_MALFORMED);
    if (callDepth >= MAX_CALL_DEPTH) return Fail(F_LIMIT);
    ++callDepth;
    R r = Ev(body, &f);
    --callDepth;
    return r;
  }
};

} // namespace detail

//! Evaluate a type-checked expression tree under env. See the header comment.
inline EvalResult Eval(
  const ccl::rslang::SyntaxTree& ast,
  const DataEnv& env,
  uint32_t setSizeLimit,
  uint32_t stepLimit = 1000000
) {
  if (setSizeLimit > 0x0FFFFFFFU) {
    setSizeLimit = 0x0FFFFFFFU;  // cardinalities must fit int32
  }
  detail::Evaluator ev{ env, setSizeLimit, stepLimit };
  detail::R r = ev.Root(ast.Root());
  EvalResult out{};
  out.kind = r.k;
  if (r.k == EvalResult::VALUE) {
    out.value = std::move(r.v);
  } else if (r.k == EvalResult::LOGIC) {
    out.truth = r.b;
  } else {
    out.failClass = r.fc;
  }
  out.sawFailure = ev.sawFailure;
  out.firstFailClass = ev.firstFail;
  out.failMask = ev.failMask;
  out.steps = ev.steps;
  return out;
}

//! Convert a real value, reading it only through its public API. Sets are re-canonicalised, so the
//  result does not depend on the real iteration order. (A real 1-component tuple stays a TUPLE.)
inline Value FromSData(const ccl::object::StructuredData& sd) {
  if (sd.IsElement()) return MakeElem(sd.E().Value());
  if (sd.IsTuple()) {
    Value r;
    r.kind = Value::TUPLE;
    const auto arity = sd.T().Arity();
    for (ccl::rslang::Index i = 1; i <= arity; ++i) {
      r.items.push_back(FromSData(sd.T().Component(i)));
    }
    return r;
  }
  Value r;
  for (const auto& e : sd.B()) {
    Insert(r, FromSData(e));
  }
  return r;
}

//! Internal consistency of a real value: every set iterates exactly Cardinality() pairwise
//  different elements and Contains() each of them.
inline bool WellFormed(const ccl::object::StructuredData& sd) {
  if (sd.IsElement()) return true;
  if (sd.IsTuple()) {
    const auto arity = sd.T().Arity();
    if (arity < 2) return false;
    for (ccl::rslang::Index i = 1; i <= arity; ++i) {
      if (!WellFormed(sd.T().Component(i))) return false;
    }
    return true;
  }
  if (!sd.IsCollection()) return false;
  uint32_t count = 0;
  Value seen;
  for (const auto& e : sd.B()) {
    if (!WellFormed(e) || !sd.B().Contains(e)) return false;
    Insert(seen, FromSData(e));
    ++count;
  }
  return count == seen.items.size()
    && sd.B().Cardinality() >= 0
    && count == static_cast<uint32_t>(sd.B().Cardinality())
    && sd.B().IsEmpty() == (count == 0);
}

//! The real value is well formed and denotes the same mathematical object as v.
inline bool Same(const Value& v, const ccl::object::StructuredData& sd) {
  return WellFormed(sd) && Equal(v, FromSData(sd));
}

} // namespace ref
