// t_ref_eval.cpp -- native differential test of the reference evaluator (refs/ref_eval.h) against
// the real ccl::rslang pipeline (Parser -> TypeAuditor -> Normalize -> ASTInterpreter).
//
// Corpus
//   (0) set-algebra cross check: ref_sets operations vs ccl::object::SDSet operations on a pool of
//       values, compared with ref::Same;
//   (1) every (expression, expected value / expected error) pair harvested (by script) from
//       /repo/ccl/rslang/test/src/testASTInterpreter.cpp and testInterpreter.cpp, evaluated in the
//       data context those tests set up: three-way comparison expected / real / reference;
//   (2) a systematic generator: all expressions of depth <= 2 over every operator / constructor /
//       binder of the language over a fixed vocabulary of typed globals and term-functions, filtered
//       to the well-typed ones by the real TypeAuditor, evaluated both ways under three
//       interpretations of the base set (X1 = {1,2,3}, {}, {5}).
//
// Build: see /verif/refs/README.md.
// Run: t_ref_eval [-v] [-cap N] [-only harvest|gen|sets] [-skip2] [-binder TEXT] [-fixed] [-skip-overflow] [-strict]
//   (the full generator takes about half an hour under ASan; -skip2 / -binder select parts of it)
//   -fixed: the binary is linked against a patched COPY of rslang (defects 1, 2 of the KNOWN list fixed),
//           so the skips / expectations for those defects are switched off and any remaining
//           disagreement is a different one.
// Exit code 0 iff there is no disagreement (known real-interpreter defects are listed, see KNOWN).
#include "ref_eval.h"

#include "ccl/rslang/ASTInterpreter.h"
#include "ccl/rslang/Literals.h"
#include "ccl/rslang/Parser.h"
#include "ccl/rslang/TypeAuditor.h"

#include <csignal>
#include <cstdio>
#include <cstdlib>
#include <cstring>
#include <ctime>
#include <iostream>
#include <map>
#include <set>
#include <string>
#include <unistd.h>
#include <vector>

using ccl::object::Factory;
using ccl::object::StructuredData;
using ccl::object::DataID;
using namespace ccl::rslang;

// ---------------------------------------------------------------------------------------------
// crash context: UBSan/ASan abort inside the real interpreter => print the offending expression
static char g_current[4096];
static void OnAbort(int) {
  const char* head = "\n*** ABORT while evaluating: ";
  (void)!write(2, head, strlen(head));
  (void)!write(2, g_current, strlen(g_current));
  (void)!write(2, "\n", 1);
  _exit(3);
}
static void SetCurrent(const std::string& what) {
  strncpy(g_current, what.c_str(), sizeof(g_current) - 1);
}

// ---------------------------------------------------------------------------------------------
static std::string Show(const ref::Value& v) {
  switch (v.kind) {
  case ref::Value::ELEM: return std::to_string(v.elem);
  case ref::Value::TUPLE:
  case ref::Value::SET: {
    std::string s{ v.kind == ref::Value::SET ? "{" : "(" };
    for (size_t i = 0; i < v.items.size(); ++i) {
      if (i) s += ", ";
      s += Show(v.items[i]);
    }
    return s + (v.kind == ref::Value::SET ? "}" : ")");
  }
  }
  return "?";
}

static const char* FailName(int fc) {
  switch (fc) {
  case ref::F_NONE: return "NONE";
  case ref::F_LIMIT: return "LIMIT";
  case ref::F_DEBOOL: return "DEBOOL";
  case ref::F_MISSING: return "MISSING";
  case ref::F_OVERFLOW: return "OVERFLOW";
  case ref::F_INTSET: return "INTSET";
  case ref::F_MALFORMED: return "MALFORMED";
  case ref::F_DEPTH: return "DEPTH";
  }
  return "?";
}

// ---------------------------------------------------------------------------------------------
//! Type / data / AST context shared by the real pipeline and (through RefEnv) by the oracle.
class Env final : public TypeContext {
public:
  struct Item {
    std::optional<ExpressionType> type{};
    std::optional<FunctionArguments> args{};
    std::optional<SyntaxTree> ast{};
    std::optional<StructuredData> data{};
    std::optional<TypeTraits> traits{};
  };
  std::map<std::string, Item> items{};

  const ExpressionType* TypeFor(const std::string& name) const final {
    const auto it = items.find(name);
    return it == items.end() || !it->second.type.has_value() ? nullptr : &it->second.type.value();
  }
  const FunctionArguments* FunctionArgsFor(const std::string& name) const final {
    const auto it = items.find(name);
    return it == items.end() || !it->second.args.has_value() ? nullptr : &it->second.args.value();
  }
  std::optional<TypeTraits> TraitsFor(const Typification& type) const final {
    if (!type.IsElement()) return std::nullopt;
    if (type == Typification::Integer()) return TraitsIntegral;
    const auto it = items.find(type.E().baseID);
    return it == items.end() ? std::nullopt : it->second.traits;
  }
  DataContext Data() const {
    return [this](const std::string& name) -> std::optional<StructuredData> {
      const auto it = items.find(name);
      return it == items.end() ? std::nullopt : it->second.data;
    };
  }
  SyntaxTreeContext Asts() const {
    return [this](const std::string& name) -> const SyntaxTree* {
      const auto it = items.find(name);
      return it == items.end() || !it->second.ast.has_value() ? nullptr : &it->second.ast.value();
    };
  }
  ref::DataEnv RefEnv() const {
    ref::DataEnv out{};
    for (const auto& [name, item] : items) {
      if (item.data.has_value()) out.globals.emplace_back(name, ref::FromSData(item.data.value()));
      if (item.ast.has_value()) out.functions.emplace_back(name, &item.ast.value());
    }
    return out;
  }

  void Base(const std::string& name, StructuredData value, TypeTraits traits) {
    items[name].type = Typification(name).Bool();
    items[name].traits = traits;
    items[name].data = std::move(value);
  }
  void Global(const std::string& name, const Typification& type, StructuredData value) {
    items[name].type = type;
    items[name].data = std::move(value);
  }
  //! Term-function or predicate: definition is parsed and typed by the real front end.
  bool Function(const std::string& name, const std::string& definition, Syntax syntax) {
    Parser parser{};
    if (!parser.Parse(name + (syntax == Syntax::MATH ? ":==" : " \\defexpr ") + definition, syntax)) return false;
    TypeAuditor auditor{ *this };
    if (!auditor.CheckType(parser.AST())) return false;
    items[name].type = auditor.GetType();
    items[name].args = auditor.GetDeclarationArgs();
    items[name].ast = parser.AST();
    return true;
  }
};

// ---------------------------------------------------------------------------------------------
struct RealResult {
  bool parsed{ false };
  bool typed{ false };
  std::optional<ExpressionValue> value{};
  uint32_t eid{ 0 };  // first critical evaluation error
  std::string type{};
};

struct Stats {
  long total{ 0 }, agreeValue{ 0 }, agreeLogic{ 0 }, agreeFail{ 0 }, justifiedFail{ 0 }, resourceFail{ 0 };
  long inconclusive{ 0 }, disagree{ 0 }, known{ 0 }, sawFailureButValue{ 0 };
  void Print(const char* title) const {
    printf("%-28s total=%ld  agree: value=%ld logic=%ld fail=%ld | real-fail justified by oracle sub-failure=%ld"
           " real-resource-limit=%ld | oracle inconclusive=%ld | known defects=%ld | DISAGREE=%ld\n",
           title, total, agreeValue, agreeLogic, agreeFail, justifiedFail, resourceFail, inconclusive, known, disagree);
  }
};

static bool g_verbose = false;
static bool g_skipOverflow = false;  // -skip-overflow: library without the ViArithmetic overflow check (UB)
static bool g_strict = false;        // -strict: no textual classification of known defects
static bool g_fixedLibrary = false;  // -fixed: linked against a copy of rslang with the known defects patched
static double Now() { return static_cast<double>(clock()) / CLOCKS_PER_SEC; }
static std::vector<std::string> g_disagreements;
static std::map<std::string, long> g_knownHits;

static bool IsResourceError(uint32_t eid) {
  return eid == static_cast<uint32_t>(ValueEID::typedOverflow)
    || eid == static_cast<uint32_t>(ValueEID::booleanLimit)
    || eid == static_cast<uint32_t>(ValueEID::iterationsLimit);
}

static bool ClassMatches(uint32_t eid, int fc) {
  switch (static_cast<ValueEID>(eid)) {
  case ValueEID::invalidDebool: return fc == ref::F_DEBOOL;
  case ValueEID::globalMissingValue: return fc == ref::F_MISSING;
  case ValueEID::iterateInfinity: return fc == ref::F_INTSET;
  case ValueEID::unknownError: return fc == ref::F_MALFORMED || fc == ref::F_MISSING;
  default: return IsResourceError(eid);
  }
}

static bool MaskMatches(uint32_t eid, uint32_t failMask) {
  for (int fc = ref::F_LIMIT; fc <= ref::F_DEPTH; ++fc) {
    if ((failMask >> fc & 1U) != 0 && ClassMatches(eid, fc)) return true;
  }
  return false;
}

//! KNOWN defects of the real front end (reported, not oracle bugs): returns a tag or "".
static std::string KnownDefect(const std::string& expr, const RealResult& /*real*/, const ref::EvalResult& oracle) {
  // TypeAuditor::ViRecursion re-types the recursion variable up to 5 times and accepts the expression even
  // if its type never stabilises (e.g. R{(a,b):=(C1,∅) | X1∈a | (b,a)}: a is ℬ(C1) and ℬ(R0) alternately), so the
  // condition / step are checked against a type the variable does not have at run time. The oracle notices
  // operands that cannot be of one type (F_MALFORMED); the real interpreter compares them as "equal".
  if ((oracle.failMask >> ref::F_MALFORMED & 1U) != 0 && expr.find("R{") != std::string::npos
      && expr.find("∅") != std::string::npos) {
    return "ill-typed recursion accepted by TypeAuditor (type of the variable does not stabilise)";
  }
  // SDPowerSet::Iterator::operator== / SDDecartian::Iterator::operator== are asymmetric: `end() == it` is TRUE
  // for an iterator at the first element, so `last == find_if_not(first, last, pred)` inside std::all_of makes
  // SDSet::IsSubsetOrEq(lazy set, rhs) answer true when the FIRST element of a lazily represented set (A×B or
  // ℬ(A)) is not in rhs.  Reaches ⊆ ⊂ ⊄ and `x∈P` / `x∉P` with P = ℬ(S) and x = A×B or ℬ(A).  Every disagreement of
  // this family disappears when only those two operators are patched (-fixed build), which is how the
  // classification below (textual, hence heuristic) was validated; -strict switches it off.
  if (!g_fixedLibrary && !g_strict) {
    const auto has = [&expr](const char* text) { return expr.find(text) != std::string::npos; };
    const bool lazySet = has("×") || has("ℬ");
    const bool subsetTest = has("⊆") || has("⊂") || has("⊄") || has("P1[") || (has("ℬ") && (has("∈") || has("∉")));
    if (lazySet && subsetTest) return "IsSubsetOrEq wrong for lazy sets (asymmetric iterator operator==)";
  }
  return {};
}

static constexpr uint32_t SET_LIMIT = 5000;
static constexpr uint32_t STEP_LIMIT = 120000;  // > the real MAX_ITERATIONS (100000)
static constexpr uint32_t QUICK_STEP_LIMIT = 500;
using meta_ast = ccl::meta::UniqueCPPtr<SyntaxTree>;

//! Names that ASTInterpreter::NameCollector attaches to a node (nodeVars), by name instead of slot id.
//  KNOWN real defect: NameCollector::ViImperative does, for every `x:∈S` / `x:=e` block,
//  `*begin(nodeVars[iter.Child(0)])` where Child(0) is the RESULT expression of I{result | blocks}
//  (it means the block's variable). If the result expression mentions no identifier at all
//  (e.g. I{0 | a:∈X1}) or only variables bound inside it, that vector is empty => null dereference.
//  `crash` is set when the tree would trigger it, so that the driver does not die.
static std::vector<std::string> CollectedNames(SyntaxTree::Cursor it, bool& crash) {
  std::vector<std::string> names{};
  std::vector<std::vector<std::string>> perChild{};
  for (Index i = 0; i < it.ChildrenCount(); ++i) {
    perChild.push_back(CollectedNames(it.Child(i), crash));
    names.insert(names.end(), perChild.back().begin(), perChild.back().end());
  }
  const auto remove = [&names](const std::string& name) { std::erase(names, name); };
  switch (it->id) {
  default: break;
  case TokenID::ID_GLOBAL: case TokenID::ID_FUNCTION: case TokenID::ID_PREDICATE: case TokenID::ID_LOCAL:
    names.push_back(it->data.ToText());
    break;
  case TokenID::FORALL: case TokenID::EXISTS: case TokenID::NT_DECLARATIVE_EXPR:
  case TokenID::NT_RECURSIVE_FULL: case TokenID::NT_RECURSIVE_SHORT:
    if (!perChild.empty() && !perChild[0].empty()) remove(std::string{ perChild[0][0] });
    break;
  case TokenID::NT_IMPERATIVE_EXPR:
    for (Index i = 1; i < it.ChildrenCount(); ++i) {
      if (it(i).id == TokenID::ITERATE || it(i).id == TokenID::ASSIGN) {
        if (perChild[0].empty()) { crash = true; break; }
        remove(std::string{ perChild[0][0] });
      }
    }
    break;
  }
  return names;
}

//! Parse (and optionally type-check) expr. nullopt if rejected.
struct Prepared {
  std::string text;
  meta_ast ast;
  std::string type;
};
static std::optional<Prepared> Prepare(const std::string& expr, Syntax syntax, const Env& env, bool typecheck) {
  SetCurrent(expr);
  Parser parser{};
  if (!parser.Parse(expr, syntax)) return std::nullopt;
  Prepared out{ expr, parser.ExtractAST(), {} };
  if (typecheck) {
    TypeAuditor auditor{ env };
    if (!auditor.CheckType(*out.ast)) return std::nullopt;
    const auto& type = auditor.GetType();
    out.type = std::holds_alternative<LogicT>(type) ? "LOGIC" : std::get<Typification>(type).ToString();
  }
  return out;
}

//! Run both evaluators on a prepared expression; updates stats.
static RealResult Compare(const Prepared& prep, const Env& env, const ref::DataEnv& refEnv,
                          Stats& stats, ref::EvalResult* oracleOut = nullptr) {
  RealResult real{};
  const bool typechecked = !prep.type.empty();
  const std::string& expr = prep.text;
  SetCurrent(expr);
  real.parsed = true;
  real.typed = true;
  real.type = prep.type;
  const SyntaxTree& ast = *prep.ast;

  // --- oracle: the un-normalised tree
  ref::EvalResult oracle = ref::Eval(ast, refEnv, SET_LIMIT, QUICK_STEP_LIMIT);
  if (oracle.kind == ref::EvalResult::FAIL && oracle.failClass == ref::F_LIMIT && oracle.steps >= QUICK_STEP_LIMIT) {
    // (probably) non-terminating recursion: the real interpreter needs 100000 iterations (seconds under
    // ASan) to report iterationsLimit; do the full comparison on the first 30 such expressions only
    static long nonTerminating = 0;
    if (++nonTerminating > 30) {
      ++stats.total;
      ++stats.inconclusive;
      return real;
    }
    oracle = ref::Eval(ast, refEnv, SET_LIMIT, STEP_LIMIT);
  }
  if (oracleOut != nullptr) *oracleOut = oracle;
  if (typechecked && (oracle.failMask >> ref::F_MALFORMED & 1U) != 0) {
    // KNOWN real front-end defect: the auditor accepted an expression whose operands cannot be of one type
    // at run time (only seen for recursions whose variable type never stabilises, see KnownDefect). The real
    // interpreter then treats incomparable values as equal (std::set with INCOMPARABLE), typically looping
    // to the iteration limit; nothing to compare.
    ++stats.total;
    const auto tag = KnownDefect(expr, real, oracle);
    if (!tag.empty()) ++stats.known;
    if (tag.empty()) {
      ++stats.disagree;
      printf("  DISAGREE %s   [oracle FAIL/MALFORMED on an expression accepted by the auditor]\n", expr.c_str());
    } else if (++g_knownHits[tag] <= 5) {
      printf("  KNOWN[ill-typed recursion accepted] %s\n", expr.c_str());
    }
    return real;
  }
  if (g_skipOverflow && (oracle.failMask >> ref::F_OVERFLOW & 1U) != 0) {
    // KNOWN real defect of the ORIGINAL tree (aborts this process under UBSan): ASTInterpreter::ViArithmetic
    // computed op1+op2 / op1-op2 / op1*op2 in int32 without overflow check (signed overflow = UB). The
    // current tree reports ValueEID::typedOverflow instead, which is compared like any resource error.
    ++stats.total;
    ++stats.known;
    if (++g_knownHits["int32 overflow in ViArithmetic (UB)"] <= 5) printf("  KNOWN[arithmetic overflow] %s\n", expr.c_str());
    return real;
  }

  if ((oracle.failMask >> ref::F_DEPTH & 1U) != 0) {
    // KNOWN real defect (would kill this process): e.g. R{a:=∅ | {a}} -- TypeAuditor::ViRecursion gives up
    // after 5 rounds of type deduction and ACCEPTS a recursion whose type never stabilises; evaluation then
    // nests values 100000 deep and the recursive Compare / destructors overflow the stack.
    ++stats.total;
    ++stats.known;
    if (++g_knownHits["recursion with non-stabilising type accepted, stack overflow at evaluation"] <= 5) printf("  KNOWN[unbounded nesting] %s\n", expr.c_str());
    return real;
  }

  // --- real: normalise a copy, evaluate
  ErrorLogger log{};
  {
    SyntaxTree normal = ast;
    normal.Normalize(env.Asts());
    bool crash = false;
    (void)CollectedNames(normal.Root(), crash);
    if (crash && !g_fixedLibrary) {
      // KNOWN real defect (would abort this process): see CollectedNames. Oracle still has to survive it.
      
      ++stats.total;
      ++stats.known;
      if (++g_knownHits["imperative-result-without-names (null deref in NameCollector::ViImperative)"] <= 5) {
        printf("  KNOWN[imperative-result-without-names] %s\n", expr.c_str());
      }
      return real;
    }
    ASTInterpreter interpreter{ env.Data(), log.SendReporter() };
    real.value = interpreter.Evaluate(normal);
  }
  for (const auto& e : log.All()) {
    if (e.IsCritical()) { real.eid = e.eid; break; }
  }

  ++stats.total;
  std::string verdict{};
  if (real.value.has_value()) {
    const bool realLogic = std::holds_alternative<bool>(real.value.value());
    if (oracle.kind == ref::EvalResult::FAIL) {
      if (oracle.failClass == ref::F_LIMIT || oracle.failClass == ref::F_OVERFLOW) {
        ++stats.inconclusive;
      } else {
        verdict = std::string{ "real gives a value, oracle FAIL/" } + FailName(oracle.failClass);
      }
    } else if (realLogic != (oracle.kind == ref::EvalResult::LOGIC)) {
      verdict = "kind mismatch (logic vs value)";
    } else if (realLogic) {
      if (std::get<bool>(real.value.value()) == oracle.truth) ++stats.agreeLogic;
      else verdict = "truth values differ";
    } else {
      if (ref::Same(oracle.value, std::get<StructuredData>(real.value.value()))) ++stats.agreeValue;
      else verdict = "values differ";
    }
    if (verdict.empty() && oracle.sawFailure) ++stats.sawFailureButValue;
  } else {
    if (oracle.kind == ref::EvalResult::FAIL) {
      if (ClassMatches(real.eid, oracle.failClass) || oracle.failClass == ref::F_LIMIT || oracle.failClass == ref::F_OVERFLOW) {
        ++stats.agreeFail;
      } else {
        verdict = std::string{ "failure class differs, oracle FAIL/" } + FailName(oracle.failClass);
      }
    } else if (IsResourceError(real.eid)) {
      ++stats.resourceFail;
    } else if (oracle.sawFailure && MaskMatches(real.eid, oracle.failMask)) {
      ++stats.justifiedFail;
    } else {
      verdict = "real fails, oracle gives a value";
    }
  }

  if (!verdict.empty()) {
    const auto tag = KnownDefect(expr, real, oracle);
    std::string line = expr + "   [" + verdict + "]  real=";
    if (real.value.has_value()) {
      line += std::holds_alternative<bool>(real.value.value())
        ? (std::get<bool>(real.value.value()) ? "TRUE" : "FALSE")
        : std::get<StructuredData>(real.value.value()).ToString();
    } else {
      char buf[32];
      snprintf(buf, sizeof buf, "ERROR 0x%X", real.eid);
      line += buf;
    }
    line += "  oracle=";
    if (oracle.kind == ref::EvalResult::VALUE) line += Show(oracle.value);
    else if (oracle.kind == ref::EvalResult::LOGIC) line += oracle.truth ? "TRUE" : "FALSE";
    else line += std::string{ "FAIL/" } + FailName(oracle.failClass);
    if (oracle.sawFailure) line += std::string{ " (sawFailure " } + FailName(oracle.firstFailClass) + ")";
    if (!tag.empty()) {
      ++stats.known;
      if (++g_knownHits[tag] <= 5) printf("  KNOWN[%s] %s\n", tag.c_str(), line.c_str());
    } else {
      ++stats.disagree;
      if (g_disagreements.size() < 400) {
        g_disagreements.push_back(line);
        printf("  DISAGREE %s\n", line.c_str());
      }
    }
  } else if (g_verbose) {
    printf("  ok  %s\n", expr.c_str());
  }
  return real;
}

static RealResult Check(const std::string& expr, Syntax syntax, const Env& env, const ref::DataEnv& refEnv,
                        bool typecheck, Stats& stats, ref::EvalResult* oracleOut = nullptr) {
  const auto prep = Prepare(expr, syntax, env, typecheck);
  if (!prep.has_value()) return RealResult{};
  return Compare(prep.value(), env, refEnv, stats, oracleOut);
}

// =============================================================================================
// (0) set algebra cross-check
// =============================================================================================
static long g_setChecks = 0, g_setFails = 0, g_setKnown = 0;
static void ExpectSame(const ref::Value& v, const StructuredData& sd, const char* what) {
  ++g_setChecks;
  if (!ref::Same(v, sd)) {
    ++g_setFails;
    printf("  SET-OP MISMATCH %s: oracle=%s real=%s\n", what, Show(v).c_str(), sd.ToString().c_str());
  }
}
static void ExpectBool(bool a, bool b, const char* what, const StructuredData& x, const StructuredData& y) {
  ++g_setChecks;
  if (a != b) {
    ++g_setFails;
    printf("  SET-PRED MISMATCH %s on %s , %s: oracle=%d real=%d\n", what, x.ToString().c_str(), y.ToString().c_str(), a, b);
  }
}

static void TestSetAlgebra() {
  // pools of same-typed sets: sets of ints, sets of pairs, sets of sets
  std::vector<StructuredData> ints{}, pairs{}, nested{};
  for (int mask = 0; mask < 16; ++mask) {
    std::vector<DataID> vals{};
    for (int b = 0; b < 4; ++b) if (mask >> b & 1) vals.push_back(b == 3 ? -7 : b + 1);
    ints.push_back(Factory::SetV(vals));
  }
  const std::vector<std::vector<DataID>> allPairs{ {1,1},{1,2},{2,1},{3,-7} };
  for (int mask = 0; mask < 16; ++mask) {
    auto s = Factory::EmptySet();
    for (int b = 0; b < 4; ++b) if (mask >> b & 1) s.ModifyB().AddElement(Factory::TupleV(allPairs[static_cast<size_t>(b)]));
    pairs.push_back(s);
  }
  for (int mask = 0; mask < 32; ++mask) {
    auto s = Factory::EmptySet();
    const int pick[5] = { 0, 1, 3, 6, 15 };
    for (int b = 0; b < 5; ++b) if (mask >> b & 1) s.ModifyB().AddElement(ints[static_cast<size_t>(pick[b])]);
    nested.push_back(s);
  }
  // lazily represented sets take part too
  ints.push_back(Factory::SetV({ 2, 1, 2, 1 }));
  pairs.reserve(pairs.size() + 1);
  nested.reserve(nested.size() + 2);
  pairs.push_back(Factory::Decartian({ Factory::SetV({ 1, 2 }), Factory::SetV({ 1, 2 }) }));
  nested.push_back(Factory::Boolean(Factory::SetV({ 1, 2 })));
  nested.push_back(Factory::Boolean(Factory::SetV({ 1, 2, 3 })));
  const std::set<const StructuredData*> lazy{ &pairs.back(), &nested.back(), &nested[nested.size() - 2] };

  for (const auto* pool : { &ints, &pairs, &nested }) {
    for (const auto& a : *pool) {
      const auto ra = ref::FromSData(a);
      ExpectSame(ra, a, "FromSData");
      ExpectSame(ref::Singleton(ra), Factory::Singleton(a), "Singleton");
      if (a.B().Cardinality() <= 6) ExpectSame(ref::Powerset(ra, 5000).value(), Factory::Boolean(a), "Powerset");
      if (a.B().Cardinality() == 1) ExpectSame(ref::Debool(ra).value(), a.B().Debool(), "Debool");
      ++g_setChecks;
      if (ref::Cardinality(ra) != static_cast<uint32_t>(a.B().Cardinality())) { ++g_setFails; printf("  CARD MISMATCH %s\n", a.ToString().c_str()); }
      for (const auto& b : *pool) {
        const auto rb = ref::FromSData(b);
        ExpectSame(ref::Union(ra, rb), a.B().Union(b.B()), "Union");
        ExpectSame(ref::Intersect(ra, rb), a.B().Intersect(b.B()), "Intersect");
        ExpectSame(ref::Diff(ra, rb), a.B().Diff(b.B()), "Diff");
        ExpectSame(ref::SymDiff(ra, rb), a.B().SymDiff(b.B()), "SymDiff");
        ExpectSame(ref::Product({ ra, rb }, 5000).value(), Factory::Decartian({ a, b }), "Product");
        if (!g_fixedLibrary && lazy.contains(&a) && !a.B().IsEmpty() && !b.B().Contains(*a.B().begin())) {
          // KNOWN real defect: SDPowerSet/SDDecartian::Iterator::operator== is asymmetric (end()==begin() holds),
          // so std::all_of in SDSet::IsSubsetOrEq answers true when the FIRST element is not in rhs.
          ++g_setChecks;
          if (ref::IsSubsetOrEq(ra, rb)) { ++g_setFails; printf("  oracle IsSubsetOrEq wrong\n"); }
          else if (a.B().IsSubsetOrEq(b.B())) ++g_setKnown;  // defect present (a fixed library answers false)
        } else {
          ExpectBool(ref::IsSubsetOrEq(ra, rb), a.B().IsSubsetOrEq(b.B()), "IsSubsetOrEq", a, b);
        }
        ExpectBool(ref::Equal(ra, rb), a == b, "Equal", a, b);
        ExpectBool(ref::Compare(ra, rb) < 0, a < b, "Less", a, b);
        for (const auto& e : b.B()) {
          ExpectBool(ref::Contains(ra, ref::FromSData(e)), a.B().Contains(e), "Contains", a, e);
        }
      }
    }
  }
  for (const auto& a : pairs) {
    const auto ra = ref::FromSData(a);
    ExpectSame(ref::Projection(ra, { 1 }).value(), a.B().Projection({ 1 }), "Pr1");
    ExpectSame(ref::Projection(ra, { 2 }).value(), a.B().Projection({ 2 }), "Pr2");
    ExpectSame(ref::Projection(ra, { 2, 1 }).value(), a.B().Projection({ 2, 1 }), "Pr2,1");
    ExpectSame(ref::Projection(ra, { 1, 1, 2 }).value(), a.B().Projection({ 1, 1, 2 }), "Pr1,1,2");
    for (const auto& c : ints) {
      ExpectSame(ref::Product({ ra, ref::FromSData(c), ra }, 5000).value(), Factory::Decartian({ a, c, a }), "Product3");
    }
  }
  for (const auto& a : nested) {
    ExpectSame(ref::Reduce(ref::FromSData(a)), a.B().Reduce(), "Reduce");
  }
  printf("set algebra cross-check: %ld checks, %ld mismatches, %ld hits of the known lazy-subset defect\n", g_setChecks, g_setFails, g_setKnown);
}

// =============================================================================================
// (1) harvested corpus
// =============================================================================================
namespace harvest {

static std::map<std::string, StructuredData> data;
static Env env;
static Stats stats;
static long expectedMismatch = 0;

static StructuredData CreateBaseSet(const int32_t count) {
  auto result = Factory::EmptySet();
  for (int32_t i = 0; i < count; ++i) result.ModifyB().AddElement(Factory::Val(i));
  return result;
}
static std::string CreateFilter(const std::string& domain, const std::string& expression) {
  return R"(D{t \in )" + domain + R"( | )" + expression + '}';
}
static void Sync() {
  for (const auto& [name, value] : data) env.items[name].data = value;
}
static RealResult Run(const std::string& input, ref::EvalResult& oracle) {
  Sync();
  const auto refEnv = env.RefEnv();
  return Check(input, Syntax::ASCII, env, refEnv, false, stats, &oracle);
}
static void Mismatch(const std::string& input, const char* why) {
  ++expectedMismatch;
  printf("  HARVEST EXPECTATION MISMATCH (%s): %s\n", why, input.c_str());
}
static void HV(const std::string& input, const StructuredData& expected) {
  ref::EvalResult oracle{};
  const auto real = Run(input, oracle);
  if (!real.value.has_value() || !std::holds_alternative<StructuredData>(real.value.value())
      || !(std::get<StructuredData>(real.value.value()) == expected)) Mismatch(input, "real vs expected");
  if (oracle.kind != ref::EvalResult::VALUE || !ref::Same(oracle.value, expected)) Mismatch(input, "oracle vs expected");
}
static void HV(const std::string& input, const int value) { HV(input, Factory::Val(value)); }
static void HV(const std::string& input, const bool expected) {
  ref::EvalResult oracle{};
  const auto real = Run(input, oracle);
  if (!real.value.has_value() || !std::holds_alternative<bool>(real.value.value())
      || std::get<bool>(real.value.value()) != expected) Mismatch(input, "real vs expected");
  if (oracle.kind != ref::EvalResult::LOGIC || oracle.truth != expected) Mismatch(input, "oracle vs expected");
}
static void HE(const std::string& input, const ValueEID eid) {
  ref::EvalResult oracle{};
  const auto real = Run(input, oracle);
  if (real.value.has_value() || real.eid != static_cast<uint32_t>(eid)) Mismatch(input, "real vs expected error");
  if (oracle.kind != ref::EvalResult::FAIL
      || !(ClassMatches(static_cast<uint32_t>(eid), oracle.failClass) || oracle.failClass == ref::F_LIMIT)) Mismatch(input, "oracle vs expected error");
}

static void RunAll() {
  // context of UTASTInterpreter
  data = {
    { "X1", CreateBaseSet(3) },
    { "X2", CreateBaseSet(3) },
    { "S1", CreateBaseSet(2) },
    { "S2", Factory::Set({ CreateBaseSet(3), Factory::EmptySet() }) },
    { "S3", Factory::Singleton(Factory::TupleV({ 0, 0 })) },
  };
  {
    Parser parser{};
    if (!parser.Parse(R"(F1 \defexpr [a \in B(X1)] { a })", Syntax::ASCII)) { printf("cannot parse F1\n"); exit(2); }
    env.items["F1"].ast = parser.AST();
  }
  // ---- generated by script from testASTInterpreter.cpp (ExpectValue -> HV, ExpectError -> HE, positions dropped)
  // IterationsCounter
  HV(R"(\A a \in X1 a \eq a)", true);
  HV(R"(\E a \in X1 a \eq a)", true);
  HV(R"(I{a | a \from X1} \eq X1)", true);
  // NumericExpressions
  HV(R"(42)", 42);
  HV(R"(4 \plus 2)", 6);
  HV(R"(4 \multiply 2)", 8);
  HV(R"(4 \minus 2)", 2);
  HV(R"(2 \minus 4)", -2);
  HV(R"(card(X1))", 3);
  // NumericPredicates
  HV(R"(2 \plus 2 \eq 4)", true);
  HV(R"(2 \multiply 2 \eq 5)", false);
  HV(R"(1 \noteq 1)", false);
  HV(R"(1 \noteq 0)", true);
  HV(R"(1 \eq 1)", true);
  HV(R"(1 \gr 1)", false);
  HV(R"(1 \gr 0)", true);
  HV(R"(1 \ls 1)", false);
  HV(R"(0 \ls 1)", true);
  HV(R"(1 \le 1)", true);
  HV(R"(1 \le 2)", true);
  HV(R"(1 \ge 1)", true);
  HV(R"(2 \ge 1)", true);
  // LogicOperations
  HV(R"(\neg 1 \eq 2)", true);
  HV(R"(\neg 1 \eq 1)", false);
  HV(R"(1 \eq 1 \and 1 \eq 1)", true);
  HV(R"(1 \eq 2 \and 1 \eq 1)", false);
  HV(R"(1 \eq 1 \and 1 \eq 2)", false);
  HV(R"(1 \eq 2 \and 1 \eq 2)", false);
  HV(R"(1 \eq 1 \or 1 \eq 1)", true);
  HV(R"(1 \eq 2 \or 1 \eq 1)", true);
  HV(R"(1 \eq 1 \or 1 \eq 2)", true);
  HV(R"(1 \eq 2 \or 1 \eq 2)", false);
  HV(R"(1 \eq 1 \impl 1 \eq 1)", true);
  HV(R"(1 \eq 2 \impl 1 \eq 1)", true);
  HV(R"(1 \eq 1 \impl 1 \eq 2)", false);
  HV(R"(1 \eq 2 \impl 1 \eq 2)", true);
  HV(R"(1 \eq 1 \equiv 1 \eq 1)", true);
  HV(R"(1 \eq 2 \equiv 1 \eq 1)", false);
  HV(R"(1 \eq 1 \equiv 1 \eq 2)", false);
  HV(R"(1 \eq 2 \equiv 1 \eq 2)", true);
  // Quantifier
  HV(R"(\A a \in X1 a \eq a)", true);
  HV(R"(\A a \in X1 a \noteq a)", false);
  HV(R"(\A a \in (X1 \setminus X1) a \eq a)", true);
  HV(R"(\A a \in (X1 \setminus X1) a \noteq a)", true);
  HV(R"(\A a \in X1 a \in S1)", false);
  HV(R"(\E a \in X1 a \eq a)", true);
  HV(R"(\E a \in X1 a \noteq a)", false);
  HV(R"(\E a \in (X1 \setminus X1) a \eq a)", false);
  HV(R"(\E a \in (X1 \setminus X1) a \noteq a)", false);
  HV(R"(\E a \in X1 a \in S1)", true);
  HV(R"(\A a,b \in X1 a \eq b)", false);
  HV(R"(\E a,b \in X1 a \eq b)", true);
  HV(R"(\A a \in X1 \E b \in X1 a \eq b)", true);
  HV(R"(\A (a,b) \in S3 (a \in X1 \and b \in X2))", true);
  HV(R"(debool({X1}) \eq X1)", true);
  HV(R"(\A a \in X1 debool({a}) \eq a)", true);
  HV(R"(\A a \in X1*X1 debool({a}) \eq a)", true);
  // TypedPredicates
  HV(R"(X1 \eq X1)", true);
  HV(R"(X1 \eq S1)", false);
  HV(R"(S1 \eq X1)", false);
  HV(R"(X1 \eq {})", false);
  HV(R"(X1 \noteq X1)", false);
  HV(R"(X1 \noteq S1)", true);
  HV(R"(S1 \noteq X1)", true);
  HV(R"(X1 \in S2)", true);
  HV(R"(S1 \in S2)", false);
  HV(R"(X1 \notin S2)", false);
  HV(R"(S1 \notin S2)", true);
  HV(R"(X1 \subset X1)", false);
  HV(R"(S1 \subset X1)", true);
  HV(R"(X1 \subset S1)", false);
  HV(R"(X1 \notsubset X1)", true);
  HV(R"(S1 \notsubset X1)", false);
  HV(R"(X1 \notsubset S1)", true);
  HV(R"(X1 \subseteq X1)", true);
  HV(R"(S1 \subseteq X1)", true);
  HV(R"(X1 \subseteq S1)", false);
  // TypedBasics
  HV(R"({})", Factory::EmptySet());
  HV(R"(X1)", data.at("X1"));
  HV(R"(X1 \union X1)", data.at("X1"));
  HV(R"(X1 \union {})", data.at("X1"));
  HV(R"(X1 \union S1)", data.at("X1"));
  HV(R"(S1 \union X1)", data.at("X1"));
  HV(R"(X1 \intersect X1)", data.at("X1"));
  HV(R"(X1 \intersect {})", Factory::EmptySet());
  HV(R"(X1 \intersect S1)", data.at("S1"));
  HV(R"(S1 \intersect X1)", data.at("S1"));
  HV(R"(X1 \setminus X1)", Factory::EmptySet());
  HV(R"(X1 \setminus S1)", Factory::Singleton(Factory::Val(2)));
  HV(R"(S1 \setminus X1)", Factory::EmptySet());
  HV(R"(X1 \symmdiff X1)", Factory::EmptySet());
  HV(R"(X1 \symmdiff S1)", Factory::Singleton(Factory::Val(2)));
  HV(R"(S1 \symmdiff X1)", Factory::Singleton(Factory::Val(2)));
  HV(R"(X1*{})", Factory::EmptySet());
  HV(R"(X1*X2)", Factory::Decartian({ data.at("X1"),  data.at("X2") }));
  HV(R"(X1*X2*X1)", Factory::Decartian({ data.at("X1"),  data.at("X2"), data.at("X1") }));
  HV(R"(X1*(X2 \setminus X2))", Factory::EmptySet());
  HV(R"((X1 \setminus X1)*X2)", Factory::EmptySet());
  HV(R"(B(X1))", Factory::Boolean(data.at("X1")));
  HV(R"(B(X1 \setminus X1))", Factory::Singleton(Factory::EmptySet()));
  HV(R"({ X1 })", Factory::Singleton(data.at("X1")));
  HV(R"({ X1, X1 })", Factory::Singleton(data.at("X1")));
  HV(R"({ X1, S1 })", Factory::Set({ data.at("X1"), data.at("S1") }));
  HV(R"({ X1, S1, X1 })", Factory::Set({ data.at("X1"), data.at("S1") }));
  HV(R"((X1, X1))", Factory::Tuple({ data.at("X1"), data.at("X1") }));
  HV(R"((X1, X2, X1))", Factory::Tuple({ data.at("X1"), data.at("X2"), data.at("X1") }));
  // TypedExpressions
  HV(R"({})", Factory::EmptySet());
  HV(R"(bool(X1))", Factory::Singleton(data.at("X1")));
  HV(R"(bool(X1 \setminus X1))", Factory::Singleton(Factory::EmptySet()));
  HV(R"(debool(bool(X1)))", data.at("X1"));
  HV(R"(red(S2))", data.at("X1"));
  HV(R"(red(S2 \setminus S2))", Factory::EmptySet());
  HV(R"(pr1((X1, X2)))", data.at("X1"));
  HV(R"(pr2((X1, X2)))", data.at("X2"));
  HV(R"(Pr1(S3))", Factory::Singleton(Factory::Val(0)));
  HV(R"(Pr2(S3))", Factory::Singleton(Factory::Val(0)));
  HV(R"(Pr1(S3 \setminus S3))", Factory::EmptySet());
  HV(R"(Pr1,2(S3 \setminus S3))", Factory::EmptySet());
  HV(R"(Fi1[X1](S3))", data.at("S3"));
  HV(R"(Fi1,2[X1,X2](S3))", data.at("S3"));
  HV(R"(Fi1,2[X1*X2](S3))", data.at("S3"));
  HV(R"(Fi2,1[X2,X1](S3))", data.at("S3"));
  HV(R"(Fi1[X1 \setminus X1](S3))", Factory::EmptySet());
  HV(R"(Fi1[X1](S3 \setminus S3))", Factory::EmptySet());
  HV(CreateFilter(R"(X1)", R"(t \eq t)"), data.at("X1"));
  HV(CreateFilter(R"(X1 \setminus X1)", R"(t \eq t)"), Factory::EmptySet());
  HV(CreateFilter(R"(B(X1) \setminus B(X1))", R"(t \eq t)"), Factory::EmptySet());
  HV(R"(D{a \in X1 | 1 \eq 1})", data.at("X1"));
  HV(R"(D{a \in X1 | a \noteq a})", Factory::EmptySet());
  HV(R"(I{(a,b) | a \from X1; b \assign a; b \noteq a})", Factory::EmptySet());
  HV(R"(I{a | a \from X1})", data.at("X1"));
  HV(R"(I{a | (a,b) \from X1*X1; b \eq b})", data.at("X1"));
  HV(R"(R{a \assign X1 | a \setminus a})", Factory::EmptySet());
  HV(R"(R{a \assign {} | a \union X1})", data.at("X1"));
  HV(R"(R{a \assign X1 \setminus X1 | a \union X1})", data.at("X1"));
  // Function
  HV(R"(F1[X1])", Factory::Singleton(data.at("X1")));
  HV(R"(F1[F1[X1]])", Factory::Singleton(Factory::Singleton(data.at("X1"))));
  HV(R"(F1[X1 \setminus X1])", Factory::Singleton(Factory::EmptySet()));
  // GlobalDeclaration
  HV(R"(D1 \defexpr X1 \setminus X1)", Factory::EmptySet());
  HV(R"(A1 \defexpr 1 \eq 1)", true);
  // ErrorsGlobalID
  HE(R"(X1 \setminus D1)", ValueEID::globalMissingValue);
  HE(R"(D1 \setminus X1)", ValueEID::globalMissingValue);
  HE(R"(\neg D1 \setminus X1 \eq X1)", ValueEID::globalMissingValue);
  HE(R"(card(D1) \eq 1)", ValueEID::globalMissingValue);
  HE(R"(1 \eq card(D1))", ValueEID::globalMissingValue);
  HE(R"(card(D1) \plus 1)", ValueEID::globalMissingValue);
  HE(R"(1 \plus card(D1))", ValueEID::globalMissingValue);
  HE(R"(card(D1) \gr 1)", ValueEID::globalMissingValue);
  HE(R"(1 \gr card(D1))", ValueEID::globalMissingValue);
  HE(R"(card(D1) \eq 1 \and 1 \eq 1)", ValueEID::globalMissingValue);
  HE(R"(1 \eq 1 \and card(D1) \eq 1)", ValueEID::globalMissingValue);
  HE(R"(\A a \in D1 a  \eq  a)", ValueEID::globalMissingValue);
  HE(R"(\A a \in X1 a \in D1)", ValueEID::globalMissingValue);
  HE(R"(X1*D1)", ValueEID::globalMissingValue);
  HE(R"(D1*X1)", ValueEID::globalMissingValue);
  HE(R"(B(D1))", ValueEID::globalMissingValue);
  HE(R"(pr1(D1))", ValueEID::globalMissingValue);
  HE(R"(Pr1(D1))", ValueEID::globalMissingValue);
  HE(R"(bool(D1))", ValueEID::globalMissingValue);
  HE(R"(debool(D1))", ValueEID::globalMissingValue);
  HE(R"(red(D1))", ValueEID::globalMissingValue);
  HE(R"({ D1 })", ValueEID::globalMissingValue);
  HE(R"((D1, X1))", ValueEID::globalMissingValue);
  HE(CreateFilter("D1", R"(t \eq t)"), ValueEID::globalMissingValue);
  HE(CreateFilter("X1", R"(t \in D1)"), ValueEID::globalMissingValue);
  HE(R"(D{a \in D1 | a \eq X1})", ValueEID::globalMissingValue);
  HE(R"(D{a \in X1 | a \eq D1})", ValueEID::globalMissingValue);
  HE(R"(R{a \assign D1 | a \union X1})", ValueEID::globalMissingValue);
  HE(R"(R{a \assign X1 | a \union D1})", ValueEID::globalMissingValue);
  HE(R"(R{a \assign X1 | 1 \eq 1 | a \union D1})", ValueEID::globalMissingValue);
  HE(R"(R{a \assign X1 | D1 \eq D1 | a \union X1})", ValueEID::globalMissingValue);
  HE(R"(I{(a,b) | a \from D1; b \assign a; b \noteq a})", ValueEID::globalMissingValue);
  HE(R"(I{(a,b) | a \from X1; b \assign a; b \noteq D1})", ValueEID::globalMissingValue);
  HE(R"(I{(a,b) | a \from X1; b \assign D1; b \noteq a})", ValueEID::globalMissingValue);
  // ErrorsPopup
  HE(R"(debool(X1))", ValueEID::invalidDebool);
  HE(R"(card({debool(X1)}))", ValueEID::invalidDebool);
  HE(R"(card({debool(X1)}) \plus 1)", ValueEID::invalidDebool);
  HE(R"(1 \plus card({debool(X1)}))", ValueEID::invalidDebool);
  HE(R"(\A a \in X1 {debool(X1)} \eq X1)", ValueEID::invalidDebool);
  HE(R"(\A a \in {debool(X1)} 1 \eq 1)", ValueEID::invalidDebool);
  HE(R"(\neg {debool(X1)} \eq X1)", ValueEID::invalidDebool);
  HE(R"({debool(X1)} \eq X1 \and 1 \eq 1)", ValueEID::invalidDebool);
  HE(R"(1 \eq 1 \and {debool(X1)} \eq X1)", ValueEID::invalidDebool);
  HE(R"({debool(X1)} \eq X1)", ValueEID::invalidDebool);
  HE(R"(X1 \eq {debool(X1)})", ValueEID::invalidDebool);
  HE(R"(B({debool(X1)}))", ValueEID::invalidDebool);
  HE(R"((X1, debool(X1)))", ValueEID::invalidDebool);
  HE(R"({X1, {debool(X1)}})", ValueEID::invalidDebool);
  HE(R"({debool(X1)}*X1)", ValueEID::invalidDebool);
  HE(R"(X1*{debool(X1)})", ValueEID::invalidDebool);
  HE(R"({debool(X1)} \setminus X1)", ValueEID::invalidDebool);
  HE(R"(X1 \setminus {debool(X1)})", ValueEID::invalidDebool);
  HE(R"(pr1((debool(X1), debool(X1))))", ValueEID::invalidDebool);
  HE(R"(Pr1({debool(X1)}*X1))", ValueEID::invalidDebool);
  HE(R"(debool(debool({X1, X1 \setminus X1})))", ValueEID::invalidDebool);
  HE(R"(red({{debool(X1)}}))", ValueEID::invalidDebool);
  HE(R"(bool(debool(X1)))", ValueEID::invalidDebool);
  HE(R"(D{a \in {debool(X1)} | a \eq X1})", ValueEID::invalidDebool);
  HE(R"(D{a \in X1 | a \eq debool(X1)})", ValueEID::invalidDebool);
  HE(R"(R{a \assign debool(X1) | a})", ValueEID::invalidDebool);
  HE(R"(R{a \assign X1 | a \union {debool(X1)}})", ValueEID::invalidDebool);
  HE(R"(R{a \assign X1 | 1 \eq 1 | a \union {debool(X1)}})", ValueEID::invalidDebool);
  HE(R"(R{a \assign X1 | debool(X1) \eq debool(X1) | a \union X1})", ValueEID::invalidDebool);
  HE(R"(I{(a,b) | a \from {debool(X1)}; b \assign a; b \noteq a})", ValueEID::invalidDebool);
  HE(R"(I{(a,b) | a \from X1; b \assign a; b \noteq debool(X1)})", ValueEID::invalidDebool);
  HE(R"(I{(a,b) | a \from X1; b \assign debool(X1); b \noteq a})", ValueEID::invalidDebool);
  HE(R"(X4 \defexpr )", ValueEID::unknownError);
  HE(R"(S4 \deftype B(X1))", ValueEID::unknownError);
  HE(R"(F1 \defexpr [a \in X1] {a})", ValueEID::unknownError);
  // ErrorsBoolSetLimit
  data.insert({ "X3", CreateBaseSet(StructuredData::BOOL_INFINITY) });
  HE(R"(B(X3))", ValueEID::booleanLimit);
  // ErrorsIterateIntegers
  HE(R"(\A a \in Z a \eq a)", ValueEID::iterateInfinity);
  // ---- end of generated block

  // context of UTInterpreter (testInterpreter.cpp): X1 = {1,2,3}, F1 := [a∈ℬ(X1)] {a}
  data = { { "X1", Factory::SetV({ 1, 2, 3 }) } };
  env.items.erase("X2"); env.items.erase("X3"); env.items.erase("S1"); env.items.erase("S2"); env.items.erase("S3");
  HV(R"(X1 \setminus X1)", Factory::EmptySet());
  HV(R"(1 \eq 1)", true);
  HV(R"(F1[X1])", Factory::Singleton(Factory::SetV({ 1, 2, 3 })));
  HE(R"(X2 \setminus X2)", ValueEID::globalMissingValue);
  {
    Sync();
    Stats s2{};
    const auto refEnv = env.RefEnv();
    ref::EvalResult oracle{};
    const auto real = Check("1=1", Syntax::MATH, env, refEnv, false, s2, &oracle);
    if (!real.value.has_value() || oracle.kind != ref::EvalResult::LOGIC || !oracle.truth) Mismatch("1=1", "math syntax");
    stats.total += s2.total; stats.agreeLogic += s2.agreeLogic; stats.disagree += s2.disagree;
  }
  stats.Print("harvested corpus:");
  printf("harvested corpus: expectation mismatches = %ld\n", expectedMismatch);
}

} // namespace harvest

// =============================================================================================
// (2) systematic generator
// =============================================================================================
namespace gen {

enum Shape : uint8_t { ATOM, SETBIN, PRED, LOGBIN, LOGUN, OTHER };

struct Ex {
  std::string text;
  Shape shape;
  std::string type;
  size_t arity{ 0 };         // number of holes of the template that produced it
  std::string pattern{};     // the template
};

//! operand of a set-expression / arithmetic operator or an argument position
static std::string S(const Ex& e) { return e.shape == SETBIN ? "(" + e.text + ")" : e.text; }
//! operand of a logical connective / negation / quantifier body
static std::string L(const Ex& e) { return (e.shape == PRED || e.shape == LOGBIN) ? "(" + e.text + ")" : e.text; }

struct Template {
  const char* pattern;  // '#' = set-expression hole, '?' = logic hole
  Shape shape;
};

static const std::vector<Template> TEMPLATES{
  // unary
  { "card(#)", OTHER }, { "ℬ(#)", OTHER }, { "bool(#)", OTHER }, { "debool(#)", OTHER }, { "red(#)", OTHER },
  { "pr1(#)", OTHER }, { "pr2(#)", OTHER }, { "pr2,1(#)", OTHER }, { "pr3(#)", OTHER },
  { "Pr1(#)", OTHER }, { "Pr2(#)", OTHER }, { "Pr1,2(#)", OTHER }, { "Pr2,1(#)", OTHER }, { "Pr1,1(#)", OTHER },
  { "{#}", OTHER }, { "¬?", LOGUN },
  { "F1[#]", OTHER }, { "F3[#]", OTHER }, { "F4[#]", OTHER }, { "F6[#]", OTHER }, { "F7[#]", OTHER }, { "P2[#]", LOGUN },
  // binary
  { "#+#", SETBIN }, { "#-#", SETBIN }, { "#*#", SETBIN },
  { "#>#", PRED }, { "#<#", PRED }, { "#≥#", PRED }, { "#≤#", PRED }, { "#=#", PRED }, { "#≠#", PRED },
  { "#∈#", PRED }, { "#∉#", PRED }, { "#⊆#", PRED }, { "#⊂#", PRED }, { "#⊄#", PRED },
  { "#×#", SETBIN }, { "#∪#", SETBIN }, { "#∩#", SETBIN }, { "#\\#", SETBIN }, { "#∆#", SETBIN },
  { "(#,#)", OTHER }, { "{#,#}", OTHER },
  { "Fi1[#](#)", OTHER }, { "Fi2[#](#)", OTHER }, { "Fi1,2[#](#)", OTHER }, { "Fi2,1[#](#)", OTHER },
  { "F2[#,#]", OTHER }, { "F5[#,#]", OTHER }, { "P1[#,#]", LOGUN },
  { "?&?", LOGBIN }, { "?∨?", LOGBIN }, { "?⇒?", LOGBIN }, { "?⇔?", LOGBIN },
  // ternary
  { "#×#×#", SETBIN }, { "(#,#,#)", OTHER }, { "{#,#,#}", OTHER }, { "Fi1,2[#,#](#)", OTHER }, { "Fi2,1[#,#](#)", OTHER },
};

//! Binder templates: '#' domain / initial value hole (closed expression); '?' (parenthesised when
//  needed: quantifier body) / '!' / '%' logic body; '@' / '$' set-expression body ('%', '$': small pool);
//  bodies may mention the bound variables.
static const std::vector<Template> BINDERS{
  { "∀a∈# ?", LOGUN }, { "∃a∈# ?", LOGUN }, { "∀a,b∈# ?", LOGUN }, { "∃a,b∈# ?", LOGUN },
  { "∀(a,b)∈# ?", LOGUN }, { "∃(a,b)∈# ?", LOGUN },
  { "D{a∈# | !}", OTHER }, { "D{(a,b)∈# | !}", OTHER }, { "{a∈# | !}", OTHER },
  { "I{@ | a:∈#}", OTHER }, { "I{$ | a:∈#; !}", OTHER }, { "I{@ | a:∈#; %}", OTHER },
  { "I{(a,b) | a:∈#; b:=@}", OTHER }, { "I{b | a:∈#; b:=@; %}", OTHER }, { "I{b | a:∈#; b:=$; !}", OTHER },
  { "I{@ | (a,b):∈#}", OTHER }, { "I{(b,a) | (a,b):∈#; !}", OTHER }, { "I{$ | (a,b):∈#; !}", OTHER },
  { "I{@ | a:∈#; b:∈#}", OTHER }, { "I{a | a:=#; !}", OTHER }, { "I{(a,b) | a:∈#; b:∈@}", OTHER },
  { "I{$ | a:∈#; !; b:=a; %}", OTHER },
  { "R{a:=# | @}", OTHER }, { "R{a:=# | ! | $}", OTHER }, { "R{a:=# | % | @}", OTHER },
  { "R{(a,b):=# | (@,b)}", OTHER }, { "R{(a,b):=# | (b,$)}", OTHER }, { "R{(a,b):=# | ! | (b,a)}", OTHER },
  { "R{(a,b):=# | % | ($,@)}", OTHER },
};

struct Variant {
  const char* name;
  Env env;
  ref::DataEnv refEnv;
};

static void Die(const char* what) { printf("generator setup failed: %s\n", what); exit(2); }

static void Setup(Variant& v, const std::vector<DataID>& x1, const std::vector<std::vector<DataID>>& s1,
                  const std::vector<std::vector<DataID>>& s2, const std::vector<DataID>& d1,
                  std::optional<DataID> d3, std::optional<std::vector<DataID>> d4) {
  Env& env = v.env;
  env.Base("X1", Factory::SetV(x1), TraitsNominal);
  env.Base("C1", Factory::SetV({ 1, 2, 4 }), TraitsIntegral);
  auto rel = Factory::EmptySet();
  for (const auto& p : s1) rel.ModifyB().AddElement(Factory::TupleV(p));
  env.Global("S1", "B(X1*X1)"_t, rel);
  auto fam = Factory::EmptySet();
  for (const auto& s : s2) fam.ModifyB().AddElement(Factory::SetV(s));
  env.Global("S2", "BB(X1)"_t, fam);
  env.Global("D1", "B(X1)"_t, Factory::SetV(d1));
  env.Global("D2", Typification::Integer(), Factory::Val(2));
  if (d3.has_value()) env.Global("D3", Typification("X1"), Factory::Val(d3.value()));
  if (d4.has_value()) env.Global("D4", "X1*X1"_t, Factory::TupleV(d4.value()));
  // term-functions and predicates (typed by the real auditor)
  if (!env.Function("F1", "[α∈ℬ(X1)] α∪α", Syntax::MATH)) Die("F1");
  if (!env.Function("F2", "[α∈ℬ(R1), β∈R1] {β}∪α", Syntax::MATH)) Die("F2");
  if (!env.Function("F3", "[α∈ℬ(R1)] D{ξ∈α | ∃σ∈α ξ≠σ}", Syntax::MATH)) Die("F3");
  if (!env.Function("F4", "[α∈ℬ(R1×R2)] I{(y,x) | (x,y):∈α}", Syntax::MATH)) Die("F4");
  if (!env.Function("F5", "[α∈ℬ(R1), β∈ℬ(R1)] α\\α", Syntax::MATH)) Die("F5");
  if (!env.Function("F6", "[α∈ℬ(R1)] F2[F3[α], debool(α)]", Syntax::MATH)) Die("F6");
  if (!env.Function("F7", "[α∈R1] (α, {α})", Syntax::MATH)) Die("F7");
  if (!env.Function("P1", "[α∈ℬ(R1), β∈ℬ(R1)] α⊆β & ¬β⊆α", Syntax::MATH)) Die("P1");
  if (!env.Function("P2", "[α∈ℬ(R1)] ∀ξ∈α ∃σ∈α ξ=σ", Syntax::MATH)) Die("P2");
  v.refEnv = env.RefEnv();
}

static std::vector<Variant> g_variants(3);
static Stats g_stats[3];
static long g_cap = 30;         // cap on sampled depth-2 combinations per (template, argument types, deep holes)
static long g_tried = 0, g_wellTyped = 0;
static bool g_skipDepth2 = false;
static std::string g_binderFilter{};  // -binder TEXT: only binder templates containing TEXT
static long g_capBinder = 300;        // cap on body combinations per (binder template, domain)

//! Type-check once, evaluate under every variant (typing is the same in all of them).
static bool Run(const std::string& text, std::string& type) {
  ++g_tried;
  const auto prep = Prepare(text, Syntax::MATH, g_variants[0].env, true);
  if (!prep.has_value()) return false;
  type = prep->type;
  ++g_wellTyped;
  for (size_t i = 0; i < g_variants.size(); ++i) {
    Compare(prep.value(), g_variants[i].env, g_variants[i].refEnv, g_stats[i]);
  }
  return true;
}

static std::string Fill(const Template& t, const std::vector<const Ex*>& args) {
  std::string out{};
  size_t k = 0;
  for (const char* p = t.pattern; *p != 0; ++p) {
    if (*p == '#' || *p == '@' || *p == '$') out += S(*args[k++]);
    else if (*p == '?') out += L(*args[k++]);
    else if (*p == '!' || *p == '%') out += args[k++]->text;
    else out += *p;
  }
  return out;
}
static std::vector<char> Holes(const Template& t) {
  std::vector<char> holes{};
  for (const char* p = t.pattern; *p != 0; ++p) {
    if (*p == '#' || *p == '?' || *p == '!' || *p == '@' || *p == '%' || *p == '$') holes.push_back(*p);
  }
  return holes;
}

//! Closed expressions grouped by type (∅ and Z have typing rules of their own).
struct Bucket {
  std::vector<Ex> shallow{};  // atoms
  std::vector<Ex> deep{};     // depth 1
};
static std::map<std::string, Bucket> g_buckets;
static std::string TypeKey(const Ex& e) { return e.text == "∅" || e.text == "Z" ? "literal " + e.text : e.type; }

//! Instantiate template t with closed arguments: `deepHoles` = how many holes take a depth-1
//  argument (0: depth 1 result, exhaustive; 1, 2: evenly sampled up to g_cap per type combination). Typing depends on argument
//  types only, so a type combination rejected twice is not tried again.
static void Enumerate(const Template& t, int deepHoles, std::vector<Ex>* out) {
  const auto holes = Holes(t);
  const size_t n = holes.size();
  std::vector<std::string> keys{};
  for (const auto& [key, bucket] : g_buckets) {
    if (n >= 3 && bucket.shallow.empty()) continue;  // ternary templates: argument types of atoms only
    keys.push_back(key);
  }
  std::vector<size_t> kidx(n, 0);
  for (;;) {  // over tuples of argument types
    bool kinds = true;
    for (size_t h = 0; h < n; ++h) kinds = kinds && ((holes[h] == '?') == (keys[kidx[h]] == "LOGIC"));
    if (kinds) {
      int rejections = 0;
      bool accepted = false;
      for (unsigned mask = 0; mask < (1U << n) && (accepted || rejections < 2); ++mask) {
        if (__builtin_popcount(mask) != deepHoles) continue;
        std::vector<const std::vector<Ex>*> lists{};
        uint64_t total = 1;
        for (size_t h = 0; h < n; ++h) {
          const auto& bucket = g_buckets.at(keys[kidx[h]]);
          lists.push_back((mask >> h & 1U) ? &bucket.deep : &bucket.shallow);
          total *= lists.back()->size();
        }
        if (total == 0) continue;
        bool allLogic = true;
        for (size_t h = 0; h < n; ++h) allLogic = allLogic && holes[h] == '?';
        const uint64_t cap = static_cast<uint64_t>(deepHoles == 0 ? (1L << 40) : allLogic ? 40 * g_cap : g_cap);
        const uint64_t stride = total > cap ? (total + cap - 1) / cap : 1;
        for (uint64_t lin = 0; lin < total && (accepted || rejections < 2); lin += stride) {
          std::vector<const Ex*> args{};
          uint64_t rest = lin;
          for (size_t h = 0; h < n; ++h) {
            args.push_back(&(*lists[h])[rest % lists[h]->size()]);
            rest /= lists[h]->size();
          }
          const auto text = Fill(t, args);
          std::string type{};
          if (Run(text, type)) {
            accepted = true;
            if (out != nullptr) out->push_back(Ex{ text, t.shape, type, n, t.pattern });
          } else {
            ++rejections;
          }
        }
      }
    }
    size_t h = 0;
    for (; h < n; ++h) {
      if (++kidx[h] < keys.size()) break;
      kidx[h] = 0;
    }
    if (h == n) break;
  }
}

static void RunAll() {
  Setup(g_variants[0], { 1, 2, 3 }, { {1,2},{2,3},{1,1} }, { {1},{1,2},{} }, { 2, 3 }, 2, std::vector<DataID>{ 1, 2 });
  g_variants[0].name = "X1={1,2,3}";
  Setup(g_variants[1], {}, {}, { {} }, {}, std::nullopt, std::nullopt);
  g_variants[1].name = "X1={}";
  Setup(g_variants[2], { 5 }, { {5,5} }, { {5} }, { 5 }, 5, std::vector<DataID>{ 5, 5 });
  g_variants[2].name = "X1={5}";
  // D3 / D4 are typed in every variant so that typing is uniform; in the empty variant they have no
  // value (real: globalMissingValue, oracle: F_MISSING).
  g_variants[1].env.items["D3"].type = Typification("X1");
  g_variants[1].env.items["D4"].type = "X1*X1"_t;

  // ---- depth 0: atoms
  std::vector<Ex> atoms{};
  for (const char* atom : { "X1", "S1", "S2", "D1", "D2", "D3", "D4", "C1", "0", "1", "2", "3", "∅", "Z" }) {
    std::string type{ "EMPTYSET" };
    // Defect of the original tree (fixed in /repo meanwhile): TypeAuditor::ViEmptySet read iter.Parent() of the
    // ROOT node (null) when the whole expression is the literal ∅ => a bare ∅ is never type-checked here.
    if (std::string{ atom } != "∅" && !Run(atom, type)) { printf("atom %s is not well-typed\n", atom); exit(2); }
    atoms.push_back(Ex{ atom, ATOM, type });
    g_buckets[TypeKey(atoms.back())].shallow.push_back(atoms.back());
  }
  printf("generator: %zu atoms, %zu types\n", atoms.size(), g_buckets.size());

  // ---- depth 1: every template over atoms
  std::vector<Ex> depth1{};
  for (const auto& t : TEMPLATES) Enumerate(t, 0, &depth1);
  printf("generator: depth 1: %zu well-typed expressions (%ld tried) t=%.1fs\n", depth1.size(), g_tried, Now());
  // sub-expression pool for depth 2: all depth-1 expressions of a type that an atom or a unary/binary
  // template produced, plus at most 8 new types per ternary template (tuples of atoms have hundreds of types)
  {
    std::map<std::string, int> newTypes{};
    for (const auto& e : depth1) {
      const auto key = TypeKey(e);
      if (!g_buckets.contains(key) && e.arity >= 3 && ++newTypes[e.pattern] > 8) continue;
      if (g_buckets[key].deep.size() < 40) g_buckets[key].deep.push_back(e);
    }
  }
  size_t poolSize = 0;
  for (const auto& [key, bucket] : g_buckets) poolSize += bucket.deep.size();
  printf("generator: %zu types, %zu depth-1 sub-expressions kept for depth 2\n", g_buckets.size(), poolSize);

  // ---- depth 2: every template with one depth-1 argument (exhaustive) or two (sampled)
  for (const auto& t : TEMPLATES) {
    if (g_skipDepth2) break;
    Enumerate(t, 1, nullptr);
    Enumerate(t, 2, nullptr);
    printf("generator: depth 2 template %-16s cumulative well-typed %ld (tried %ld) t=%.1fs\n", t.pattern, g_wellTyped, g_tried, Now());
  }
  printf("generator: depth <= 2 closed: %ld well-typed (%ld tried) t=%.1fs\n", g_wellTyped, g_tried, Now());
  fflush(stdout);

  // ---- binders.  '#': closed domain / initial value of depth <= 1 (all atoms, two per other type);
  //      '?' '@': open logic / set-expression body of depth <= 1 over atoms and the bound variables;
  //      '%' '$': the same of depth 0 (plus a few fixed ones).
  std::vector<Ex> domains{};
  for (const auto& [key, bucket] : g_buckets) {
    if (key == "LOGIC") continue;
    for (const auto& e : bucket.shallow) domains.push_back(e);
    if (bucket.shallow.empty() && key.size() > 24) continue;  // skip exotic nested tuple types
    for (size_t i = 0; i < bucket.deep.size() && i < 2; ++i) domains.push_back(bucket.deep[i]);
  }
  std::vector<Ex> vocabulary = atoms;
  vocabulary.push_back(Ex{ "a", ATOM, "" });
  vocabulary.push_back(Ex{ "b", ATOM, "" });
  std::vector<Ex> openLogic{}, openSet{}, smallLogic{}, smallSet{};
  for (const auto& e : vocabulary) { openSet.push_back(e); smallSet.push_back(e); }
  for (const char* text : { "1=1", "1=2", "debool(X1)=debool(X1)", "a=a", "a=b", "a≠b" }) {
    smallLogic.push_back(Ex{ text, PRED, "LOGIC" });
    openLogic.push_back(smallLogic.back());
  }
  for (const char* text : { "{a}", "(a,b)", "a∪a", "a+1", "debool(X1)" }) smallSet.push_back(Ex{ text, text[0] == 'a' ? SETBIN : OTHER, "" });
  for (const auto& t : TEMPLATES) {
    const auto holes = Holes(t);
    if (holes.size() > 2) continue;
    bool logicHole = false;
    for (const char h : holes) logicHole = logicHole || h == '?';
    if (logicHole) continue;
    std::vector<size_t> idx(holes.size(), 0);
    for (;;) {
      std::vector<const Ex*> args{};
      bool usesVar = false;
      for (size_t h = 0; h < holes.size(); ++h) {
        args.push_back(&vocabulary[idx[h]]);
        usesVar = usesVar || idx[h] >= atoms.size();
      }
      if (usesVar) {
        const bool logic = t.shape == PRED || t.shape == LOGUN;
        (logic ? openLogic : openSet).push_back(Ex{ Fill(t, args), t.shape, logic ? "LOGIC" : "" });
      }
      size_t h = 0;
      for (; h < holes.size(); ++h) {
        if (++idx[h] < vocabulary.size()) break;
        idx[h] = 0;
      }
      if (h == holes.size()) break;
    }
  }
  printf("generator: %zu binder domains, %zu open logic bodies, %zu open set bodies\n",
         domains.size(), openLogic.size(), openSet.size());

  const long beforeBinders = g_wellTyped;
  for (const auto& t : BINDERS) {
    if (!g_binderFilter.empty() && std::string{ t.pattern }.find(g_binderFilter) == std::string::npos) continue;
    const auto holes = Holes(t);
    const size_t n = holes.size();
    std::vector<const std::vector<Ex>*> lists{};
    for (const char h : holes) {
      lists.push_back(h == '#' ? &domains : (h == '?' || h == '!') ? &openLogic : h == '@' ? &openSet : h == '%' ? &smallLogic : &smallSet);
    }
    // Typing of each body depends only on the TYPE of the domain (every '#' hole takes the same
    // domain) and on that body, so bodies are filtered one hole at a time against a neutral filling
    // of the other body holes (logic: 1=1; set-expression: the bound variable a, then b), per domain type.
    const Ex neutralLogic{ "1=1", PRED, "LOGIC" }, neutralA{ "a", ATOM, "" }, neutralB{ "b", ATOM, "" };
    std::vector<const Ex*> neutral(n, nullptr);
    std::vector<size_t> bodyHoles{};
    {
      int setHoles = 0;
      for (size_t h = 0; h < n; ++h) {
        if (holes[h] == '#') continue;
        bodyHoles.push_back(h);
        const bool logic = holes[h] == '?' || holes[h] == '!' || holes[h] == '%';
        neutral[h] = logic ? &neutralLogic : (setHoles++ == 0 ? &neutralA : &neutralB);
      }
    }
    std::map<std::string, std::vector<std::vector<const Ex*>>> validByType{};
    for (const auto& domain : domains) {
      std::vector<const Ex*> base = neutral;
      for (size_t h = 0; h < n; ++h) if (holes[h] == '#') base[h] = &domain;
      const auto typeKey = TypeKey(domain);
      if (!validByType.contains(typeKey)) {
        auto& valid = validByType[typeKey];
        valid.resize(n);
        for (const size_t h : bodyHoles) {
          for (const auto& body : *lists[h]) {
            std::vector<const Ex*> args = base;
            args[h] = &body;
            std::string type{};
            if (Run(Fill(t, args), type)) valid[h].push_back(&body);
          }
        }
      }
      const auto& valid = validByType.at(typeKey);
      uint64_t total = 1;
      for (const size_t h : bodyHoles) total *= valid[h].size();
      const uint64_t stride = (bodyHoles.size() >= 2 && total > static_cast<uint64_t>(g_capBinder))
        ? (total + g_capBinder - 1) / g_capBinder : 1;
      for (uint64_t lin = 0; lin < total; lin += stride) {
        std::vector<const Ex*> args = base;
        uint64_t rest = lin;
        for (const size_t h : bodyHoles) {
          args[h] = valid[h][rest % valid[h].size()];
          rest /= valid[h].size();
        }
        std::string type{};
        (void)Run(Fill(t, args), type);
      }
    }
    printf("generator: binder %-34s cumulative well-typed %ld (tried %ld) t=%.1fs\n", t.pattern, g_wellTyped - beforeBinders, g_tried, Now());
    fflush(stdout);
  }

  // ---- a few hand-written deeper expressions exercising scoping / substitution corner cases
  for (const char* text : {
         "F3[D{ξ∈X1 | ξ∈D1}]", "F3[F3[X1]]", "F2[F1[D1], debool({D3})]", "F5[X1, {debool(X1)}]",
         "∀a∈X1 F2[{a}, a]={a}", "D{a∈X1 | F3[{a}∪D1]≠∅}", "F4[F4[S1]]=S1", "P1[F3[D1], X1] & P2[X1]",
         "I{(a, F3[b]) | a:∈X1; b:=D{ξ∈X1 | ξ≠a}}", "R{ξ:=0 | ξ<10 | ξ+1}", "R{ξ:=D1 | F1[ξ]∪X1}",
         "R{(a,b):=(0,1) | a<5 | (a+1, b*2)}", "∀a∈X1 ∃b∈X1 (a,b)∈S1 ∨ (b,a)∈S1",
         "card(ℬ(X1×X1))", "red(ℬ(X1))=X1", "debool(Pr1(Fi2[{3}](S1)))", "I{(a,b) | (a,b):∈S1; (b,a)∉S1}",
         "∀(a,(b,c))∈X1×S1 a=b ⇒ (a,c)∈S1", "D{(a,b)∈S1 | a=b}", "I{σ | σ:=X1; card(σ)>2}",
         "(∀a∈X1 a∈D1) ⇔ X1⊆D1", "∃a∈X1 debool({a})∈D1", "∀a∈S2 debool(a)∈X1", "∃a∈S2 debool(a)∈X1",
         "card(X1)=0 ∨ debool(Pr1(S1×{1}))∈X1", "D{a∈ℬ(X1) | card(a)=2}", "ℬℬ(D1)", "X1×X1×X1", "(X1×X1)×X1",
         "Pr1,3(X1×D1×X1)", "Fi1,3[S1](X1×D1×X1)", "pr1,3((1,2,3))", "∀a∈Z a=a", "1∈Z", "Z=Z",
         "F6[{D3}]", "F6[X1]", "F7[D3]", "F7[X1]", "D5:==X1\\D1", "bool(S1)", "{(1,2)}∪{(2,1)}",
       }) {
    std::string type{};
    if (!Run(text, type)) printf("  note: hand-written expression not well-typed: %s\n", text);
  }

  for (size_t i = 0; i < g_variants.size(); ++i) g_stats[i].Print(g_variants[i].name);
  printf("generator: %ld well-typed expressions (of %ld tried), each evaluated under %zu interpretations\n",
         g_wellTyped, g_tried, g_variants.size());
}

} // namespace gen

int main(int argc, char** argv) {
  static char altStack[1 << 16];
  stack_t ss{};
  ss.ss_sp = altStack;
  ss.ss_size = sizeof altStack;
  sigaltstack(&ss, nullptr);
  struct sigaction sa{};
  sa.sa_handler = OnAbort;
  sa.sa_flags = SA_ONSTACK;
  sigaction(SIGABRT, &sa, nullptr);
  sigaction(SIGSEGV, &sa, nullptr);
  std::string only{};
  for (int i = 1; i < argc; ++i) {
    if (!strcmp(argv[i], "-v")) g_verbose = true;
    else if (!strcmp(argv[i], "-cap") && i + 1 < argc) gen::g_cap = atol(argv[++i]);
    else if (!strcmp(argv[i], "-only") && i + 1 < argc) only = argv[++i];
    else if (!strcmp(argv[i], "-skip2")) gen::g_skipDepth2 = true;
    else if (!strcmp(argv[i], "-fixed")) g_fixedLibrary = true;
    else if (!strcmp(argv[i], "-skip-overflow")) g_skipOverflow = true;
    else if (!strcmp(argv[i], "-strict")) g_strict = true;
    else if (!strcmp(argv[i], "-binder") && i + 1 < argc) gen::g_binderFilter = argv[++i];
  }
  setvbuf(stdout, nullptr, _IOLBF, 0);
  if (only.empty() || only == "sets") TestSetAlgebra();
  if (only.empty() || only == "harvest") harvest::RunAll();
  if (only.empty() || only == "gen") gen::RunAll();

  long disagree = harvest::stats.disagree + harvest::expectedMismatch + g_setFails;
  for (const auto& s : gen::g_stats) disagree += s.disagree;
  printf("\n==== %zu disagreement lines (first 400 kept)\n", g_disagreements.size());
  for (const auto& line : g_disagreements) printf("  %s\n", line.c_str());
  for (const auto& [tag, n] : g_knownHits) printf("known defect %s: %ld hits\n", tag.c_str(), n);
  printf("RESULT: %s (%ld disagreements)\n", disagree == 0 ? "PASS" : "FAIL", disagree);
  return disagree == 0 ? 0 : 1;
}
