// Native differential test: ref::Check (refs/ref_types.h) against ccl::rslang::Auditor::CheckType.
//
// Build (see refs/README.md):  clang++-14 -std=c++20 ... -I/verif/refs refs/tests/t_ref_types.cpp $L/libccl.a -o /var/tmp/t_ref_types
// Run:   python3 refs/tests/harvest.py > /var/tmp/t_ref_types_harvest.txt
//        /var/tmp/t_ref_types /var/tmp/t_ref_types_harvest.txt [-v] [-quick]     (full run: ~5 min under ASan)
// Exit code 0 iff every disagreement is on the list of known accidents of the real checker
// (classified below in KnownAccident()).
#include "ref_types.h"

#include "ccl/rslang/Auditor.h"
#include "ccl/rslang/TypeAuditor.h"
#include "ccl/rslang/Literals.h"

#include <cstdio>
#include <cstdlib>
#include <fstream>
#include <map>
#include <set>
#include <string>
#include <unordered_map>
#include <vector>

#include <sys/wait.h>
#include <unistd.h>

using namespace ccl::rslang;
using ccl::rslang::operator""_t;

// ------------------------------------------------------------------ a real TypeContext (modelled on Schema's)
class Context final : public TypeContext {
public:
  struct Entry {
    std::optional<ExpressionType> type{};
    std::optional<FunctionArguments> args{};
    std::optional<TypeTraits> traits{};
  };
  std::unordered_map<std::string, Entry> data{};
  std::vector<std::string> names{};
  std::string label{};

  Entry& At(const std::string& name) {
    if (!data.contains(name)) { names.push_back(name); }
    return data[name];
  }
  void Base(const std::string& name, TypeTraits traits) {
    At(name).type = Typification(name).Bool();
    At(name).traits = traits;
  }
  void Typed(const std::string& name, ExpressionType type) { At(name).type = std::move(type); }
  void Args(const std::string& name, FunctionArguments args) { At(name).args = std::move(args); }

  const ExpressionType* TypeFor(const std::string& name) const final {
    const auto it = data.find(name);
    return it == data.end() || !it->second.type.has_value() ? nullptr : &it->second.type.value();
  }
  const FunctionArguments* FunctionArgsFor(const std::string& name) const final {
    const auto it = data.find(name);
    return it == data.end() || !it->second.args.has_value() ? nullptr : &it->second.args.value();
  }
  std::optional<TypeTraits> TraitsFor(const Typification& type) const final {
    if (!type.IsElement()) { return std::nullopt; }
    if (type == Typification::Integer()) { return TraitsIntegral; }
    const auto it = data.find(type.E().baseID);
    return it == data.end() ? std::nullopt : it->second.traits;
  }
};

static void AddCommon(Context& c) {
  c.Base("X1", TraitsNominal);
  c.Base("X2", TraitsNominal);
  c.Base("C1", TraitsIntegral);
  c.Base("C2", TraitsOrdered);
  c.Base("C3", TypeTraits{ true, true, true, false });
  c.Base("C4", TraitsIntegral);
  c.Typed("S1", "B(X1*X1)"_t);
  c.Typed("S2", "BB(X1)"_t);
  c.Typed("S3", "X1*B(X1)"_t);
  c.Typed("S4", "C1"_t);
  c.Typed("S5", "C2"_t);
  c.Typed("S6", "C3"_t);
  c.Typed("S7", "C4"_t);
  c.Typed("S8", "B(X1*X2*B(X1))"_t);
  c.Typed("D1", "B(X1)"_t);
  c.Typed("D2", "Z"_t);
  c.Typed("D3", "B(Z*C1)"_t);
  c.Typed("A1", LogicT{});
  c.Typed("T1", LogicT{});
  c.Typed("P1", LogicT{});
  c.Args("P1", { TypedID{ "a", "B(X1)"_t }, TypedID{ "b", "B(X1)"_t } });
  // oddities a context may contain
  c.Args("F7", { TypedID{ "a", "B(X1)"_t } });                 // arguments but no type
  c.Typed("F8", LogicT{});                                      // F-name that is a predicate
  c.Args("F8", { TypedID{ "a", "B(X1)"_t } });
  c.Typed("F9", "B(X1)"_t);                                     // F-name typed but without arguments
  c.Typed("P2", "B(X1)"_t);                                     // P-name that is a term function
  c.Args("P2", { TypedID{ "a", "B(X1)"_t } });
  c.Typed("F10", "R2*R1"_t);                                    // result mentions an unbound radical
  c.Args("F10", { TypedID{ "a", "R1"_t } });
  c.Typed("F11", "B(C1*Z)"_t);
  c.Args("F11", { TypedID{ "a", "C1"_t }, TypedID{ "b", "Z"_t }, TypedID{ "c", "B(Z*C1)"_t } });
}

// Context of the task statement: F1 templated, F2 plain
static Context MakeMain() {
  Context c{};
  c.label = "main";
  AddCommon(c);
  c.Typed("F1", "B(R1*B(R1))"_t);
  c.Args("F1", { TypedID{ "\xCE\xB1", "B(R1)"_t }, TypedID{ "\xCE\xB2", "R1"_t } });
  c.Typed("F2", "B(X1)"_t);
  c.Args("F2", { TypedID{ "a", "B(X1)"_t }, TypedID{ "b", "B(X1)"_t } });
  c.Typed("F3", "R1*R2"_t);
  c.Args("F3", { TypedID{ "a", "B(R1)"_t }, TypedID{ "b", "B(R1*R2)"_t } });
  return c;
}

// Context of the upstream unit tests (testTypeAuditor.cpp): F1 plain, F2/F3 templated
static Context MakeUpstream() {
  Context c{};
  c.label = "upstream";
  AddCommon(c);
  c.Typed("F1", "B(X1)"_t);
  c.Args("F1", { TypedID{ "a", "B(X1)"_t }, TypedID{ "b", "B(X1)"_t } });
  c.Typed("F2", "B(R1F2)"_t);
  c.Args("F2", { TypedID{ "a", "B(R1F2)"_t }, TypedID{ "b", "R1F2"_t } });
  c.Typed("F3", "R1*R2"_t);
  c.Args("F3", { TypedID{ "a", "B(R1)"_t }, TypedID{ "b", "B(R1*R2)"_t } });
  return c;
}

// testTypeAuditor.cpp / TemplatedFunctionsNesting
static Context MakeNesting() {
  Context c = MakeUpstream();
  c.label = "nesting";
  c.Typed("F2", "B(R1)"_t);
  c.Args("F2", { TypedID{ "a", "R1"_t }, TypedID{ "b", "R1*R2"_t } });
  return c;
}

// ------------------------------------------------------------------ running both checkers
struct Outcome {
  bool parsed{ false };
  bool threw{ false };
  bool accepted{ false };
  std::string what{};
  std::string type{};
  std::string args{};
  uint32_t firstError{ 0 };
};

static std::string ArgsToString(const FunctionArguments& args) {
  std::string out{};
  for (const auto& arg : args) { out += arg.name + ":" + arg.type.ToString() + ";"; }
  return out;
}
static std::string ArgsToString(const std::vector<ref::TypedName>& args) {
  std::string out{};
  for (const auto& arg : args) { out += arg.first + ":" + ref::ToString(arg.second) + ";"; }
  return out;
}
static std::string TypeToString(const ExpressionType& type) {
  if (const auto* typed = std::get_if<Typification>(&type); typed != nullptr) { return typed->ToString(); }
  return "LOGIC";
}

static uint32_t gMode = 0;    // ref::MODE_TYPIFICATION: compare against TypeAuditor with SetExepectTypification()

static Outcome RunRealTypification(const Context& context, const std::string& expr, Syntax syntax) {
  Outcome out{};
  Parser parser{};
  out.parsed = parser.Parse(expr, syntax);
  if (!out.parsed) { return out; }
  TypeAuditor auditor{ context, parser.log.SendReporter() };
  auditor.SetExepectTypification();
  try {
    out.accepted = auditor.CheckType(parser.AST());
  } catch (const std::exception& e) {
    out.threw = true;
    out.what = e.what();
  }
  if (out.accepted) {
    out.type = TypeToString(auditor.GetType());
    out.args = ArgsToString(auditor.GetDeclarationArgs());
  }
  for (const auto& error : parser.log.All()) {
    if (error.IsCritical()) { out.firstError = error.eid; break; }
  }
  return out;
}

static Outcome RunReal(const Context& context, const std::string& expr, Syntax syntax) {
  if ((gMode & ref::MODE_TYPIFICATION) != 0) { return RunRealTypification(context, expr, syntax); }
  Outcome out{};
  Auditor auditor{ context,
    [](const std::string&) { return ValueClass::value; },
    [](const std::string&) -> const SyntaxTree* { return nullptr; } };
  try {
    out.accepted = auditor.CheckType(expr, syntax);
    out.parsed = auditor.isParsed;
  } catch (const std::exception& e) {
    out.parsed = true;
    out.threw = true;
    out.what = e.what();
  }
  if (out.accepted) {
    out.type = TypeToString(auditor.GetType());
    out.args = ArgsToString(auditor.GetDeclarationArgs());
  }
  for (const auto& error : auditor.Errors().All()) {
    if (error.IsCritical()) { out.firstError = error.eid; break; }
  }
  return out;
}

//! Run the real checker in a child process; returns true if the child died abnormally
static bool RealCrashes(const Context& context, const std::string& expr, Syntax syntax) {
  fflush(stdout);
  const pid_t pid = fork();
  if (pid == 0) {
    if (freopen("/dev/null", "w", stderr) == nullptr) { _exit(3); }
    const auto outcome = RunReal(context, expr, syntax);
    _exit(outcome.accepted ? 40 : 41);
  }
  int status = 0;
  waitpid(pid, &status, 0);
  return !(WIFEXITED(status) && (WEXITSTATUS(status) == 40 || WEXITSTATUS(status) == 41));
}

static bool HasEmptyIndexList(SyntaxTree::Cursor node) {
  const auto id = node->id;
  if ((id == TokenID::BIGPR || id == TokenID::SMALLPR || id == TokenID::FILTER) && node->data.ToTuple().empty()) { return true; }
  for (Index i = 0; i < node.ChildrenCount(); ++i) {
    if (HasEmptyIndexList(node.Child(i))) { return true; }
  }
  return false;
}

struct Stats {
  size_t total{ 0 }, unparsed{ 0 }, agree{ 0 }, agreeAccept{ 0 }, unsupported{ 0 };
  size_t realThrows{ 0 }, realCrashes{ 0 }, knownAccident{ 0 }, disagree{ 0 };
};

struct Finding { std::string klass, context, expr, real, mine; };

static bool verbose = false;
static bool quick = false;     // skip the random and grown corpora
static std::vector<Finding> findings{};
static std::set<std::string> seenCases{};

static bool Contains(const std::string& text, const std::string& part) { return text.find(part) != std::string::npos; }

static bool SameAs(const Outcome& real, const ref::Result& mine) {
  const bool mineAccept = mine.verdict == ref::Verdict::ACCEPT;
  return !real.threw && real.accepted == mineAccept
    && (!mineAccept || (real.type == ref::ToString(mine.type) && real.args == ArgsToString(mine.declaredArgs)));
}

//! Classification of disagreements that are accidents of the real checker (not rules of the language).
//! A disagreement is explained iff the reference checker run with exactly one named quirk (or all of them)
//! reproduces the real result, or the real checker lets an exception escape on an input the rule rejects
//! and that mentions a LOGIC-typed name.  Returns an empty string when the disagreement is not explained.
static std::string KnownAccident(const ref::TypeEnv& env, const SyntaxTree& ast, const std::string& expr,
                                 const Outcome& real, const ref::Result& mine) {
  if (real.threw) {
    const bool logicName = Contains(expr, "A1") || Contains(expr, "T1") || Contains(expr, "F8[") || Contains(expr, "P1");
    if (mine.verdict == ref::Verdict::ACCEPT || !logicName) { return {}; }
    return "EXC: exception escapes (" + real.what + ") where a LOGIC-typed name is used as an object; rule: REJECT";
  }
  static const std::vector<std::pair<uint32_t, std::string>> quirks{
    { ref::QUIRK_FILTER_ANY_SKIPS_PARAMS, "FI-ANY: filter over an ANY-typed argument is accepted without visiting its parameters" },
    { ref::QUIRK_LOGIC_OPERAND_UNCHECKED, "LOGIC-OPERAND: operand of a logical construct is not checked to be LOGIC (P-name typed as a set)" },
    { ref::QUIRK_EMPTY_INDEX_PROJECTION, "PR0: projection without any valid index is accepted with a 0-ary tuple type" },
    { ref::QUIRK_ARGS_DROP_REUSED_NAMES, "ARGS: parameter whose name was bound earlier (in a previous parameter's domain) is missing from the declared argument list" },
    { ref::QUIRK_ALL, "MULTI: combination of several accidents" },
  };
  for (const auto& [bits, label] : quirks) {
    if (SameAs(real, ref::Check(ast, env, bits | gMode))) { return label; }
  }
  return {};
}

struct Feedback { bool realAccepted{ false }; bool logic{ false }; };

static Feedback Compare(const Context& context, const ref::TypeEnv& env, const std::string& expr, Syntax syntax, Stats& stats) {
  const std::string key = context.label + (gMode != 0 ? "|T" : "|") + (syntax == Syntax::MATH ? "M|" : "A|") + expr;
  if (!seenCases.insert(key).second) { return {}; }

  Parser parser{};
  if (!parser.Parse(expr, syntax)) {
    ++stats.unparsed;
    if (verbose && syntax == Syntax::MATH) { std::printf("UNPARSED %s\n", expr.c_str()); }
    return {};
  }
  ++stats.total;
  const auto mine = ref::Check(parser.AST(), env, gMode);
  const std::string mineText = mine.verdict == ref::Verdict::ACCEPT
    ? "ACCEPT " + ref::ToString(mine.type) + " [" + ArgsToString(mine.declaredArgs) + "]"
    : (mine.verdict == ref::Verdict::REJECT ? "REJECT" : "UNSUPPORTED");

  // Inputs on which the real checker is known to run into undefined behaviour are first tried in a child process:
  //  - root-level empty set literal: Cursor::Parent() of the root dereferences a null parent
  //  - projection / filter whose index list is empty (pr0, Pr0, Fi0): Token::ToString() reads *begin() of an empty vector
  if (parser.AST().Root()->id == TokenID::LIT_EMPTYSET || HasEmptyIndexList(parser.AST().Root())) {
    if (RealCrashes(context, expr, syntax)) {
      ++stats.realCrashes;
      const std::string klass = parser.AST().Root()->id == TokenID::LIT_EMPTYSET
        ? "CRASH-ROOT-EMPTYSET: root-level empty set literal: Cursor::Parent() of the root is null"
        : "CRASH-INDEX0: projection/filter with empty index list: Token::ToString() reads an empty vector while reporting";
      if (mine.verdict == ref::Verdict::ACCEPT && klass[6] == 'I') { ++stats.disagree; findings.push_back({ "UNEXPLAINED", context.label, expr, "crash", mineText }); }
      else { findings.push_back({ klass, context.label, expr, "crash (sanitizer abort / signal)", mineText }); }
      return {};
    }
  }

  const auto real = RunReal(context, expr, syntax);
  char code[16];
  std::snprintf(code, sizeof code, "%04X", real.firstError);
  const std::string realText = real.threw ? "THROWS " + real.what
    : (real.accepted ? "ACCEPT " + real.type + " [" + real.args + "]" : std::string("REJECT eid=") + code);
  if (verbose) { std::printf("[%s] %s\n    real: %s\n    ref : %s\n", context.label.c_str(), expr.c_str(), realText.c_str(), mineText.c_str()); }

  if (real.threw) { ++stats.realThrows; }
  if (mine.verdict == ref::Verdict::UNSUPPORTED) { ++stats.unsupported; return {}; }
  const bool mineAccept = mine.verdict == ref::Verdict::ACCEPT;
  if (SameAs(real, mine)) {
    ++stats.agree;
    if (mineAccept) { ++stats.agreeAccept; }
    return Feedback{ real.accepted, real.type == "LOGIC" };
  }
  const auto klass = KnownAccident(env, parser.AST(), expr, real, mine);
  if (klass.empty()) {
    ++stats.disagree;
    findings.push_back({ "UNEXPLAINED", context.label, expr, realText, mineText });
  } else {
    ++stats.knownAccident;
    findings.push_back({ klass, context.label, expr, realText, mineText });
  }
  return Feedback{ real.accepted, real.type == "LOGIC" };
}

// ------------------------------------------------------------------ generated corpus (MATH syntax)
static std::vector<std::string> Generate() {
  std::vector<std::string> out{};
  // global atoms of different types (main context)
  const std::vector<std::string> atoms{
    "X1", "X2", "C1", "S1", "S2", "S3", "S4", "S5", "S6", "S7", "D1", "D2", "D3", "A1", "X42", "F2", "P1",
    "\xE2\x88\x85", "1", "Z", "(1,2)", "(X1,S3)", "{1}", "{S4}", "{(1,S4)}", "\xE2\x84\xAC(X1)", "X1\xC3\x97X1",
    "debool(X1)", "F2[X1,X1]", "F8[X1]", "{\xE2\x88\x85}", "S8", "R1"
  };
  // local atoms, declared by the prefix below as parameters of a function definition
  const std::string prefix = "[e\xE2\x88\x88\xE2\x88\x85, w\xE2\x88\x88\xE2\x84\xAC(\xE2\x88\x85), p\xE2\x88\x88S1, k\xE2\x88\x88X1, "
                             "n\xE2\x88\x88Z, c\xE2\x88\x88" "C1, s\xE2\x88\x88\xE2\x84\xAC(X1), q\xE2\x88\x88X1\xC3\x97\xE2\x84\xAC(X1), u\xE2\x88\x88{\xE2\x88\x85}] ";
  const std::vector<std::string> locals{ "e", "w", "p", "k", "n", "c", "s", "q", "u", "zz", "pr1(e)", "pr2(q)", "(e,k)" };

  const std::vector<std::string> binary{
    "+", "-", "*", "<", "\xE2\x89\xA4", ">", "\xE2\x89\xA5", "=", "\xE2\x89\xA0",
    "\xE2\x88\x88", "\xE2\x88\x89", "\xE2\x8A\x82", "\xE2\x8A\x86", "\xE2\x8A\x84",
    "\xE2\x88\xAA", "\xE2\x88\xA9", "\\", "\xE2\x88\x86", "\xC3\x97"
  };
  const std::vector<std::pair<std::string, std::string>> binaryForms{   // prefix A infix B suffix
    { "(", ")" }, { "{", "}" }, { "F1[", "]" }, { "F2[", "]" }, { "P1[", "]" }, { "F3[", "]" }
  };
  const std::vector<std::string> unary{
    "\xE2\x84\xAC(@)", "\xE2\x84\xAC\xE2\x84\xAC(@)", "Pr1(@)", "Pr2(@)", "Pr1,2(@)", "Pr2,1(@)", "Pr3(@)", "Pr0(@)",
    "pr1(@)", "pr2(@)", "pr1,2(@)", "pr3(@)", "pr0(@)", "red(@)", "bool(@)", "debool(@)", "card(@)", "{@}", "{@,@}", "(@,@)",
    "\xC2\xAC @=@", "S9:==@", "S9::=@", "F10[@]", "F7[@]", "F8[@]", "F9[@]", "P2[@]", "F11[@,@,D3]", "F11[1,S4,@]",
    "\xE2\x88\x80x\xE2\x88\x88@ x=x", "\xE2\x88\x83x\xE2\x88\x88@ x\xE2\x88\x88@", "\xE2\x88\x80(x,y)\xE2\x88\x88@ x=y",
    "\xE2\x88\x80x,y\xE2\x88\x88@ x=y", "\xE2\x88\x80(x,(y,z))\xE2\x88\x88@ x=y", "\xE2\x88\x80(x,y,z)\xE2\x88\x88@ x=y",
    "D{x\xE2\x88\x88@|x=x}", "{x\xE2\x88\x88@|x=x}", "D{(x,y)\xE2\x88\x88@|x=y}", "D{x\xE2\x88\x88@|x\xE2\x88\x88@}",
    "R{x:=@|x}", "R{x:=@|x\xE2\x88\xAAx}", "R{x:=@|x\xE2\x88\xAA@}", "R{x:=@|{x}}", "R{x:=@|1=1|x}", "R{(x,y):=@|(y,x)}", "R{x:=@|x+1}",
    "R{x:=\xE2\x88\x85|x\xE2\x88\xAA@}", "R{x:=\xE2\x88\x85|x\xE2\x88\xAA{@}}", "R{x:=\xE2\x88\x85|card(x)<3|x\xE2\x88\xAA{@}}",
    "I{x|x:\xE2\x88\x88@}", "I{(x,y)|x:\xE2\x88\x88@; y:=x}", "I{x|x:=@}", "I{(x,y)|(x,y):\xE2\x88\x88@}", "I{x|x:\xE2\x88\x88@; x\xE2\x88\x88@}",
    "I{@|x:\xE2\x88\x88X1; x=x}", "I{x|x:\xE2\x88\x88X1; @=@}",
    "[x\xE2\x88\x88@] x", "[x\xE2\x88\x88@] x=x", "[x\xE2\x88\x88@, y\xE2\x88\x88\xE2\x84\xAC(@)] (x,y)", "[x\xE2\x88\x88@, y\xE2\x88\x88x] y=y",
    "Fi1[@](S1)", "Fi1[X1](@)", "Fi1,2[@](S1)", "Fi1,2[X1,X1](@)", "Fi2,1[@,@](S8)", "Fi3[@](S8)", "Fi1,2,3[@](S8)", "Fi1[X42](@)", "Fi0[X1](@)",
    "Fi1,2[@,X1,X1](S1)", "@=@ & @=@", "@=@ \xE2\x88\xA8 1=1", "@=@ \xE2\x87\x92 1=1", "@=@ \xE2\x87\x94 1=1", "P2[X1] & @=@", "\xC2\xAC P2[@]"
  };

  auto subst = [](const std::string& form, const std::string& value) {
    std::string result{};
    for (const char ch : form) { if (ch == '@') { result += value; } else { result += ch; } }
    return result;
  };

  std::vector<std::string> all = atoms;
  all.insert(all.end(), locals.begin(), locals.end());
  auto isLocal = [&](const std::string& a) {
    return std::find(locals.begin(), locals.end(), a) != locals.end();
  };
  auto emit = [&](const std::string& body, bool needPrefix) {
    out.push_back(needPrefix ? prefix + body : body);
  };

  for (const auto& a : all) {
    emit(a, isLocal(a));
    for (const auto& form : unary) {
      const bool defines = form[0] == '[' || form.rfind("S9", 0) == 0;
      if (isLocal(a) && defines) { continue; }       // function definitions cannot be nested
      emit(subst(form, a), isLocal(a));
    }
    for (const auto& b : all) {
      const bool local = isLocal(a) || isLocal(b);
      for (const auto& op : binary) { emit(a + op + b, local); }
      for (const auto& form : binaryForms) { emit(form.first + a + "," + b + form.second, local); }
      emit("Fi1[" + a + "](" + b + ")", local);
      emit("Fi1,2[" + a + "](" + b + ")", local);
      emit("(" + a + "\xE2\x88\xAA" + b + ")\xC3\x97" + a, local);
      emit(a + "\xC3\x97" + b + "\xC3\x97" + a, local);
      emit("{(" + a + "," + b + "),(" + b + "," + a + ")}", local);
    }
  }

  // hand-written: scopes, templates, declarations
  const std::vector<std::string> extra{
    "\xE2\x88\x80" "a\xE2\x88\x88X1 \xE2\x88\x80" "a\xE2\x88\x88X1 a=a",
    "\xE2\x88\x80" "a\xE2\x88\x88X1 a=a & \xE2\x88\x80" "a\xE2\x88\x88X1 a=a",
    "(\xE2\x88\x80" "a\xE2\x88\x88X1 a=a) & a=a",
    "\xE2\x88\x80" "a\xE2\x88\x88X1 (a=a & \xE2\x88\x80" "b\xE2\x88\x88X1 a=b)",
    "\xE2\x88\x80" "a\xE2\x88\x88" "a a=a",
    "\xE2\x88\x80" "a,a\xE2\x88\x88X1 a=a",
    "\xE2\x88\x80(a,a)\xE2\x88\x88S1 a=a",
    "\xE2\x88\x80" "a\xE2\x88\x88X1 1=1",
    "\xE2\x88\x80" "a\xE2\x88\x88{b\xE2\x88\x88X1|b=b} \xE2\x88\x80" "b\xE2\x88\x88X1 a=b",
    "\xE2\x88\x80" "a\xE2\x88\x88{a\xE2\x88\x88X1|a=a} a=a",
    "\xE2\x88\x80" "a\xE2\x88\x88{b\xE2\x88\x88X1|b=b} b=a",
    "{a\xE2\x88\x88X1|\xE2\x88\x83" "a\xE2\x88\x88X1 a=a}",
    "{a\xE2\x88\x88X1|a=a}\xE2\x88\xAA{a\xE2\x88\x88X1|a=a}",
    "{a\xE2\x88\x88X1|a=a}\xE2\x88\xAA{b\xE2\x88\x88X1|a=b}",
    "[a\xE2\x88\x88X1, a\xE2\x88\x88X1] a",
    "[a\xE2\x88\x88X1, b\xE2\x88\x88{a}] b",
    "[a\xE2\x88\x88{b}, b\xE2\x88\x88X1] b",
    "[a\xE2\x88\x88" "D{b\xE2\x88\x88X1|b=b}, b\xE2\x88\x88X1] (a,b)",
    "[a\xE2\x88\x88" "D{b\xE2\x88\x88X1|b=b}, b\xE2\x88\x88X2] b",
    "F5:==[a\xE2\x88\x88" "D{b\xE2\x88\x88X1|b=b}, c\xE2\x88\x88X1, b\xE2\x88\x88X2] (a,b,c)",
    "[a\xE2\x88\x88X1] \xE2\x88\x80" "a\xE2\x88\x88X1 a=a",
    "[a\xE2\x88\x88R1, b\xE2\x88\x88\xE2\x84\xAC(R1\xC3\x97R2)] Pr2(b)",
    "[a\xE2\x88\x88R1] {a}\xE2\x88\xAAR1",
    "[a\xE2\x88\x88R1] \xE2\x88\x80x\xE2\x88\x88R1 x=a",
    "[a\xE2\x88\x88\xE2\x84\xAC(R1), b\xE2\x88\x88R2] F1[a, debool(a)]",
    "[a\xE2\x88\x88\xE2\x84\xAC(R1), b\xE2\x88\x88R2] F1[a, b]",
    "[a\xE2\x88\x88\xE2\x84\xAC(R1), b\xE2\x88\x88R1] F1[{a}, a]",
    "[a\xE2\x88\x88R1] F10[a]",
    "[a\xE2\x88\x88R2\xC3\x97R1] F10[a]",
    "[a\xE2\x88\x88R1] F1[F1[a,debool(a)], (debool(a), a)]",
    "F1[X1, debool(X1)]", "F1[\xE2\x88\x85, \xE2\x88\x85]", "F1[{\xE2\x88\x85}, \xE2\x88\x85]", "F1[{\xE2\x88\x85}, X1]", "F1[{X1}, \xE2\x88\x85]",
    "F1[Z, S4]", "F1[C1, 1]", "F1[{S4}, 1]", "F1[{1}, S4]", "F1[{S7}, S4]", "F1[{S4,1}, S7]", "F1[Z, 1]", "F1[Z,S6]",
    "F1[S1, (debool(X1), debool(X1))]", "F1[S1, (debool(X1), debool(X2))]", "F1[{(1,S4)}, (S4,1)]",
    "F1[F1[X1, debool(X1)], (debool(X1), X1)]", "F1[X1]", "F1[X1,X1,X1]", "F1",
    "F3[X1, X1\xC3\x97\xE2\x84\xAC(X1)]", "F3[X1, X1]", "F3[X1, X2\xC3\x97X1]", "F3[\xE2\x88\x85, X2\xC3\x97X1]", "F3[Z, C1\xC3\x97X1]", "F3[C1, Z\xC3\x97X1]",
    "F3[\xE2\x88\x85, \xE2\x88\x85]", "F3[X1, \xE2\x88\x85]",
    "F11[1, 1, \xE2\x88\x85]", "F11[S4, S4, D3]", "F11[S7, 1, D3]", "F11[1, S7, D3]", "F11[1, 1, {(S4,1)}]", "F11[1, 1, {(1,1)}]", "F11[1,1,{(S7,S7)}]",
    "P1[X1, X1] & P1[D1, \xE2\x88\x85]", "\xC2\xAC P1[X1, S1]", "P1", "P1[A1, X1]",
    "X1:==", "F1:==", "A5:==", "S9:==[a\xE2\x88\x88X1] a", "S9::=[a\xE2\x88\x88X1] a", "S9::=\xE2\x84\xAC(X1\xC3\x97Z)", "S9::=\xE2\x84\xAC(X1\xE2\x88\xAAX1)", "S9::={X1,X2}",
    "S9::={X1,Z}", "S9::=A1", "S9::=S3", "S9::=S4", "S9::=D1\xC3\x97\xE2\x84\xAC(X42)", "S9::=F9", "S9::=C1\xC3\x97{Z,C1}", "S9:==A1", "A2:==1=1 & A1=A1", "A2:==A1",
    "R{a:=\xE2\x88\x85|a\xE2\x88\xAA{S4}}", "R{a:=\xE2\x88\x85|a\xE2\x88\xAA{{a}}}", "R{a:=\xE2\x88\x85|{a}}", "R{a:={\xE2\x88\x85}|{a}}", "R{a:=0|a<10|a+S4}", "R{a:=S4|a+1}",
    "R{a:=1|a<S4|a+S4}", "R{(a,b):=(\xE2\x88\x85,1)|b<3|(a\xE2\x88\xAA{b},b+S4)}", "R{a:=X1|a=a|a\xE2\x88\xAA" "D{a\xE2\x88\x88X1|1=1}}",
    "R{a:=X1|\xE2\x88\x80" "a\xE2\x88\x88X1 1=1|a}", "R{a:=X1|b=a|a}", "R{a:=a|a}", "\xE2\x88\x80" "a\xE2\x88\x88X1 R{a:=X1|a}=X1", "R{a:=A1|a}", "R{a:=X1|A1}",
    "R{a:=\xE2\x88\x85|a\xE2\x88\xAA{(1,a)}}", "R{a:=\xE2\x88\x85|red(a)\xE2\x88\xAA{a}}", "R{a:=(\xE2\x88\x85,\xE2\x88\x85)|(pr2(a),{pr1(a)})}",
    "I{(a,b)|a:\xE2\x88\x88X1; b:=a; a\xE2\x89\xA0" "b}", "I{a|a:\xE2\x88\x88X1; a:=X1}", "I{a|a:\xE2\x88\x88X1}\xE2\x88\xAAI{a|a:\xE2\x88\x88X1}", "I{b|a:\xE2\x88\x88X1}",
    "I{a|a:\xE2\x88\x88X1; b:=A1}", "I{A1|a:\xE2\x88\x88X1}", "I{a|a:=A1}", "I{a|b:\xE2\x88\x88" "a; a:\xE2\x88\x88S2}", "I{a|a:\xE2\x88\x88S2; b:\xE2\x88\x88" "a; b\xE2\x88\x88" "a}",
    "I{(a,b)|(a,b):=(1,X1); c:\xE2\x88\x88" "b}", "\xE2\x88\x80" "a\xE2\x88\x88X1 I{a|a:\xE2\x88\x88X1}=X1", "I{a|a:\xE2\x88\x88X1; \xE2\x88\x80" "a\xE2\x88\x88X1 a=a}",
    "card(X1)+card(S1)*2<S4", "card(\xE2\x84\xAC(\xE2\x88\x85))", "debool({\xE2\x88\x85})", "red({\xE2\x88\x85})", "red({{\xE2\x88\x85}})", "red(\xE2\x84\xAC(\xE2\x88\x85))", "Pr1({\xE2\x88\x85})", "Pr1(\xE2\x88\x85\xC3\x97X1)",
    "pr1((\xE2\x88\x85,1))", "bool(\xE2\x88\x85)", "\xE2\x84\xAC(\xE2\x88\x85)", "\xE2\x88\x85\xC3\x97\xE2\x88\x85", "\xE2\x88\x85=\xE2\x88\x85", "\xE2\x88\x85\xE2\x88\x88\xE2\x88\x85", "\xE2\x88\x85\xE2\x8A\x86\xE2\x88\x85", "{\xE2\x88\x85,{\xE2\x88\x85}}", "{{\xE2\x88\x85},{X1}}", "({\xE2\x88\x85}\xE2\x88\xAA{X1})",
    "Fi1[\xE2\x88\x85](S1)", "Fi1[X1](\xE2\x88\x85)", "Fi1[X42](\xE2\x88\x85)", "Fi1[zz](\xE2\x88\x85)", "Fi1,2[X1](\xE2\x88\x85)", "Fi1,2[X1,X1,X1](\xE2\x88\x85)", "Fi1[{1}](Z\xC3\x97X1)", "Fi1[{S4}](Z\xC3\x97X1)", "Fi1[Z](C1\xC3\x97X1)",
    "Fi1,2[Z\xC3\x97X1](C1\xC3\x97X1)", "Fi1,3[X1\xC3\x97\xE2\x84\xAC(X1)](S8)", "Fi3,1[\xE2\x84\xAC(X1), X1](S8)", "Fi1,3[\xE2\x84\xAC(X1), X1](S8)",
    "X1\xC3\x97X1\xC3\x97X1", "(X1\xC3\x97X1)\xC3\x97X1", "X1\xC3\x97(X1\xC3\x97X1)", "((1,2),3)", "(1,(2,3))", "(1,2,3)", "{(1,(2,3))}\xE2\x88\xAA{((1,2),3)}", "pr1(((1,2),3))", "pr1,3((1,X1,S1))",
    "Pr2,2(S1)", "Pr1,1,2(S8)", "pr2,2,1((1,X1))",
    "1=1 & A1", "A1 = A1", "A1 \xE2\x88\x88 X1", "X1 \xE2\x88\x88 A1", "{A1}", "(A1, 1)", "card(A1)", "\xE2\x84\xAC(A1)", "A1\xC3\x97X1", "debool(A1)", "red(A1)", "bool(A1)", "Pr1(A1)", "pr1(A1)", "A1<1", "1<A1",
    "\xE2\x88\x80x\xE2\x88\x88" "A1 x=x", "{x\xE2\x88\x88" "A1|x=x}", "Fi1[A1](S1)", "Fi1[X1](A1)", "F2[A1, X1]", "T1=T1", "[a\xE2\x88\x88" "A1] a", "I{a|a:\xE2\x88\x88" "A1}",
  };
  out.insert(out.end(), extra.begin(), extra.end());
  return out;
}

// ------------------------------------------------------------------ random deeper expressions (deterministic)
struct Rng {
  uint64_t state;
  uint32_t Next() { state = state * 6364136223846793005ULL + 1442695040888963407ULL; return static_cast<uint32_t>(state >> 33); }
  uint32_t Below(uint32_t n) { return Next() % n; }
  bool Chance(uint32_t percent) { return Below(100) < percent; }
  template <typename T> const T& Pick(const std::vector<T>& items) { return items[Below(static_cast<uint32_t>(items.size()))]; }
};

struct RandomGen {
  Rng rng;
  std::vector<std::string> vars{};
  const std::vector<std::string> globals{ "X1", "X1", "X2", "C1", "S1", "S1", "S2", "S3", "S4", "S7", "S8", "D1", "D2", "D3", "Z", "1", "2",
                                          "\xE2\x88\x85", "A1", "X42", "S5", "S6" };
  const std::vector<std::string> names{ "a", "b", "c", "d" };
  const std::vector<std::string> setOps{ "\xE2\x88\xAA", "\xE2\x88\xA9", "\\", "\xE2\x88\x86", "\xC3\x97", "+", "-", "*" };
  const std::vector<std::string> relOps{ "=", "\xE2\x89\xA0", "\xE2\x88\x88", "\xE2\x88\x89", "\xE2\x8A\x86", "\xE2\x8A\x82", "\xE2\x8A\x84", "<", "\xE2\x89\xA5" };
  const std::vector<std::string> unaryOps{ "Pr1", "Pr2", "Pr1,2", "pr1", "pr2", "pr2,1", "red", "bool", "debool", "card", "\xE2\x84\xAC" };

  std::string Binder() {
    if (!vars.empty() && rng.Chance(12)) { return rng.Pick(vars); }       // provoke shadowing
    for (const auto& name : names) {
      if (std::find(vars.begin(), vars.end(), name) == vars.end()) { return name; }
    }
    return "e";
  }
  std::string Atom() {
    if (!vars.empty() && rng.Chance(55)) { return rng.Pick(vars); }
    if (rng.Chance(4)) { return rng.Pick(names); }                          // maybe undeclared / out of scope
    return rng.Pick(globals);
  }
  std::string Term(int depth) {
    if (depth <= 0 || rng.Chance(25)) { return Atom(); }
    switch (rng.Below(16)) {
    default:
    case 0: case 1: case 2: return "(" + Term(depth - 1) + rng.Pick(setOps) + Term(depth - 1) + ")";
    case 3: return rng.Pick(unaryOps) + "(" + Term(depth - 1) + ")";
    case 4: return rng.Pick(unaryOps) + "(" + Term(depth - 1) + ")";
    case 5: return "(" + Term(depth - 1) + "," + Term(depth - 1) + (rng.Chance(20) ? "," + Term(depth - 1) : "") + ")";
    case 6: return "{" + Term(depth - 1) + (rng.Chance(60) ? "," + Term(depth - 1) : "") + "}";
    case 7: {
      const auto domain = Term(depth - 1);
      const auto name = Binder();
      vars.push_back(name);
      auto body = Logic(depth - 1);
      vars.pop_back();
      return "D{" + name + "\xE2\x88\x88" + domain + "|" + body + "}";
    }
    case 8: {
      const auto domain = Term(depth - 1);
      const auto first = Binder();
      vars.push_back(first);
      const auto second = Binder();
      vars.push_back(second);
      auto body = Logic(depth - 1);
      vars.pop_back(); vars.pop_back();
      return "D{(" + first + "," + second + ")\xE2\x88\x88" + domain + "|" + body + "}";
    }
    case 9: {
      const auto init = Term(depth - 1);
      const auto name = Binder();
      vars.push_back(name);
      auto condition = rng.Chance(40) ? Logic(depth - 1) + "|" : std::string{};
      auto step = Term(depth - 1);
      vars.pop_back();
      return "R{" + name + ":=" + init + "|" + condition + step + "}";
    }
    case 10: {
      const auto domain = Term(depth - 1);
      const auto name = Binder();
      vars.push_back(name);
      std::string blocks = name + ":\xE2\x88\x88" + domain;
      size_t declared = 1;
      if (rng.Chance(50)) {
        const auto value = Term(depth - 1);
        const auto second = Binder();
        vars.push_back(second); ++declared;
        blocks += "; " + second + ":=" + value;
      }
      if (rng.Chance(40)) { blocks += "; " + Logic(depth - 1); }
      auto value = Term(depth - 1);
      for (; declared > 0; --declared) { vars.pop_back(); }
      return "I{" + value + "|" + blocks + "}";
    }
    case 11: return "F1[" + Term(depth - 1) + "," + Term(depth - 1) + "]";
    case 12: return "F2[" + Term(depth - 1) + "," + Term(depth - 1) + "]";
    case 13: return "F3[" + Term(depth - 1) + "," + Term(depth - 1) + "]";
    case 14: return "Fi1[" + Term(depth - 1) + "](" + Term(depth - 1) + ")";
    case 15: return "Fi2,1[" + Term(depth - 1) + (rng.Chance(50) ? "," + Term(depth - 1) : "") + "](" + Term(depth - 1) + ")";
    }
  }
  //! quantifier bodies and negation operands: only binary formulas and predicates may be parenthesised
  static std::string Par(const std::string& body) {
    const bool unary = body.rfind("\xC2\xAC", 0) == 0 || body.rfind("\xE2\x88\x80", 0) == 0 || body.rfind("\xE2\x88\x83", 0) == 0 || body.rfind("P1[", 0) == 0;
    return unary ? " " + body : " (" + body + ")";
  }
  std::string Logic(int depth) {
    if (depth <= 0 || rng.Chance(40)) { return Term(depth - 1) + rng.Pick(relOps) + Term(depth - 1); }
    switch (rng.Below(6)) {
    default:
    case 0: return "\xC2\xAC" + Par(Logic(depth - 1));
    case 1: return "(" + Logic(depth - 1) + (rng.Chance(50) ? " & " : " \xE2\x87\x92 ") + Logic(depth - 1) + ")";
    case 2: case 3: {
      const auto domain = Term(depth - 1);
      const auto name = Binder();
      vars.push_back(name);
      auto body = Logic(depth - 1);
      vars.pop_back();
      return (rng.Chance(50) ? "\xE2\x88\x80" : "\xE2\x88\x83") + name + "\xE2\x88\x88" + domain + Par(body);
    }
    case 4: {
      const auto domain = Term(depth - 1);
      const auto first = Binder();
      vars.push_back(first);
      const auto second = Binder();
      vars.push_back(second);
      auto body = Logic(depth - 1);
      vars.pop_back(); vars.pop_back();
      return "\xE2\x88\x80" + (rng.Chance(50) ? "(" + first + "," + second + ")" : first + "," + second) + "\xE2\x88\x88" + domain + Par(body);
    }
    case 5: return "P1[" + Term(depth - 1) + "," + Term(depth - 1) + "]";
    }
  }
  std::string Root(int depth) {
    vars.clear();
    const auto kind = rng.Below(10);
    if (kind < 5) { return Term(depth); }
    if (kind < 8) { return Logic(depth); }
    const auto domain1 = rng.Chance(30) ? std::string{ "R1" } : Term(depth - 1);
    vars.push_back("a");
    const auto domain2 = rng.Chance(30) ? std::string{ "\xE2\x84\xAC(R1\xC3\x97R2)" } : Term(depth - 1);
    vars.push_back("b");
    const auto body = rng.Chance(60) ? Term(depth) : Logic(depth);
    return "[a\xE2\x88\x88" + domain1 + ", b\xE2\x88\x88" + domain2 + "] " + body;
  }
};

// ------------------------------------------------------------------ corpus growth: combine inputs the real checker accepted
//! Bodies are checked under a fixed parameter prefix, so they may use the parameters e,w,p,k,n,c,s,q,u freely.
//! '@' = accepted term from the pool, '#' = accepted formula from the pool, '$' / '%' = bound variable names.
static void Grow(const Context& context, const ref::TypeEnv& env, Stats& stats, int rounds) {
  const std::string prefix = "[e\xE2\x88\x88\xE2\x88\x85, w\xE2\x88\x88\xE2\x84\xAC(\xE2\x88\x85), p\xE2\x88\x88S1, k\xE2\x88\x88X1, "
                             "n\xE2\x88\x88Z, c\xE2\x88\x88" "C1, s\xE2\x88\x88\xE2\x84\xAC(X1), q\xE2\x88\x88X1\xC3\x97\xE2\x84\xAC(X1), u\xE2\x88\x88{\xE2\x88\x85}] ";
  std::vector<std::string> terms{ "X1", "X2", "C1", "S1", "S2", "S3", "S4", "S7", "S8", "D1", "D2", "D3", "Z", "1", "\xE2\x88\x85",
                                  "e", "w", "p", "k", "n", "c", "s", "q", "u" };
  std::vector<std::string> formulas{ "1=1", "k\xE2\x88\x88X1", "P1[X1,s]" };
  const std::vector<std::string> forms{
    "(@\xE2\x88\xAA@)", "(@\xE2\x88\xA9@)", "(@\\@)", "(@\xE2\x88\x86@)", "@\xC3\x97@", "(@\xC3\x97@)\xC3\x97@", "@\xC3\x97@\xC3\x97@", "(@+@)", "(@*@)", "(@-@)",
    "\xE2\x84\xAC(@)", "(@,@)", "(@,@,@)", "{@}", "{@,@}", "{@,@,@}", "bool(@)", "debool(@)", "red(@)", "card(@)",
    "Pr1(@)", "Pr2(@)", "Pr1,2(@)", "Pr2,1(@)", "Pr3(@)", "Pr1,3(@)", "pr1(@)", "pr2(@)", "pr3(@)", "pr2,1(@)", "pr1,3(@)",
    "Fi1[@](@)", "Fi2[@](@)", "Fi1,2[@,@](@)", "Fi1,2[@](@)", "Fi3,1[@,@](@)", "Fi2,3[@](@)",
    "F1[@,@]", "F2[@,@]", "F3[@,@]", "F10[@]", "F11[@,@,@]",
    "D{$\xE2\x88\x88@|$\xE2\x88\x88@}", "D{$\xE2\x88\x88@|$=@ & #}", "D{($,%)\xE2\x88\x88@|$=% \xE2\x88\xA8 #}", "D{($,%)\xE2\x88\x88@|($,%)\xE2\x88\x88@}",
    "D{$\xE2\x88\x88@|\xE2\x88\x83%\xE2\x88\x88@ ($,%)\xE2\x88\x88@}", "{$\xE2\x88\x88@|pr1($)=@}", "{$\xE2\x88\x88@|card($)<@}", "{$\xE2\x88\x88@|$\xE2\x8A\x86@}",
    "R{$:=@|$\xE2\x88\xAA@}", "R{$:=@|card($)<@|$\xE2\x88\xAA{@}}", "R{$:=@|{$}}", "R{$:=@|#|@}", "R{($,%):=@|(%,$)}", "R{($,%):=(@,@)|($\xE2\x88\xAA{%},%+@)}", "R{$:=@|$+@}",
    "R{$:=\xE2\x88\x85|$\xE2\x88\xAA@}", "R{$:=\xE2\x88\x85|$\xE2\x88\xAA{@}}", "R{$:=\xE2\x88\x85|$\xE2\x88\xAA{($,@)}}", "R{$:=\xE2\x88\x85|Pr1($)\xE2\x88\xAA@}", "R{$:=(@,\xE2\x88\x85)|(pr1($),pr2($)\xE2\x88\xAA{@})}",
    "I{$|$:\xE2\x88\x88@}", "I{($,%)|$:\xE2\x88\x88@; %:=@}", "I{($,%)|$:\xE2\x88\x88@; %:\xE2\x88\x88$}", "I{@|$:\xE2\x88\x88@; #}", "I{{$,@}|$:\xE2\x88\x88@; $\xE2\x89\xA0@}",
    "I{%|($,%):\xE2\x88\x88@}", "I{(%,$)|($,%):=@; #}", "I{$|$:=@; %:\xE2\x88\x88$}",
    // formulas
    "@=@", "@\xE2\x89\xA0@", "@\xE2\x88\x88@", "@\xE2\x88\x89@", "@\xE2\x8A\x86@", "@\xE2\x8A\x82@", "@\xE2\x8A\x84@", "@<@", "@\xE2\x89\xA4@", "@>@", "@\xE2\x89\xA5@",
    "\xC2\xAC(#)", "(# & #)", "(# \xE2\x88\xA8 #)", "(# \xE2\x87\x92 #)", "(# \xE2\x87\x94 #)", "P1[@,@]",
    "\xE2\x88\x80$\xE2\x88\x88@ $\xE2\x88\x88@", "\xE2\x88\x83$\xE2\x88\x88@ ($=@ & #)", "\xE2\x88\x80$,%\xE2\x88\x88@ ($=% \xE2\x87\x92 #)", "\xE2\x88\x80($,%)\xE2\x88\x88@ (%,$)\xE2\x88\x88@",
    "\xE2\x88\x80($,(%,v))\xE2\x88\x88@ ($,%,v)\xE2\x88\x88@", "\xE2\x88\x83$\xE2\x88\x88@ \xE2\x88\x80%\xE2\x88\x88$ %\xE2\x88\x88@", "\xE2\x88\x80$\xE2\x88\x88@ card($)>@",
  };
  const std::vector<std::string> names{ "x", "y", "z", "t", "g", "h", "i", "j", "l", "m" };
  Rng rng{ 977 };
  for (int round = 0; round < rounds; ++round) {
    const auto& form = rng.Pick(forms);
    const auto first = rng.Pick(names);
    auto second = rng.Pick(names);
    if (second == first && rng.Chance(95)) { second = first == "x" ? "y" : "x"; }
    std::string body{};
    for (const char ch : form) {
      switch (ch) {
      case '@': body += rng.Chance(35) ? terms[rng.Below(24)] : rng.Pick(terms); break;      // keep atoms frequent
      case '#': body += rng.Pick(formulas); break;
      case '$': body += first; break;
      case '%': body += second; break;
      default: body += ch; break;
      }
    }
    if (body.size() > 160) { continue; }
    const auto feedback = Compare(context, env, prefix + body, Syntax::MATH, stats);
    if (feedback.realAccepted) {
      auto& pool = feedback.logic ? formulas : terms;
      if (std::find(pool.begin(), pool.end(), body) == pool.end()) { pool.push_back(body); }
    }
  }
}

int main(int argc, char** argv) {
  std::vector<std::string> harvested{};
  for (int i = 1; i < argc; ++i) {
    const std::string arg{ argv[i] };
    if (arg == "-v") { verbose = true; continue; }
    if (arg == "-quick") { quick = true; continue; }
    std::ifstream in{ arg };
    if (!in) { std::fprintf(stderr, "cannot open %s\n", arg.c_str()); return 2; }
    for (std::string line; std::getline(in, line);) {
      if (!line.empty()) { harvested.push_back(line); }
    }
  }
  if (harvested.empty()) { std::fprintf(stderr, "warning: no harvested corpus given (run harvest.py)\n"); }

  std::vector<Context> contexts{};
  contexts.push_back(MakeMain());
  contexts.push_back(MakeUpstream());
  contexts.push_back(MakeNesting());
  std::vector<ref::TypeEnv> envs{};
  for (const auto& context : contexts) { envs.push_back(ref::MakeEnv(context, context.names)); }

  Stats harvestStats{}, generatedStats{};
  for (size_t c = 0; c < contexts.size(); ++c) {
    for (const auto& expr : harvested) {
      Compare(contexts[c], envs[c], expr, Syntax::ASCII, harvestStats);
      Compare(contexts[c], envs[c], expr, Syntax::MATH, harvestStats);
    }
  }
  const auto generated = Generate();
  for (size_t c = 0; c < 2; ++c) {                 // main + upstream (F1/F2/F3 differ)
    for (const auto& expr : generated) { Compare(contexts[c], envs[c], expr, Syntax::MATH, generatedStats); }
  }

  Stats randomStats{};
  RandomGen random{ Rng{ 20261002 } };
  for (int i = 0; i < (quick ? 0 : 40000); ++i) {
    const auto expr = random.Root(2 + static_cast<int>(random.rng.Below(3)));
    Compare(contexts[i % 2], envs[i % 2], expr, Syntax::MATH, randomStats);
  }

  // typification mode of the real checker (radicals allowed anywhere): every generated input that mentions a radical
  Stats typificationStats{};
  gMode = ref::MODE_TYPIFICATION;
  for (const auto& expr : generated) {
    if (Contains(expr, "R1") || Contains(expr, "R2")) { Compare(contexts[0], envs[0], expr, Syntax::MATH, typificationStats); }
  }
  for (const std::string expr : { "B(X1*R1)", "B(R1*B(R2*R1))", "R1*R1", "BB(R3)", "R1 \\union R1", "R1 \\union R2", "F1[R1, debool(R1)]", "F3[R1, R1*R2]",
                                  "\\A a \\in R1 a \\eq a", "D{a \\in R1*X1 | pr1(a) \\in R1}", "[a \\in R1] {a} \\union R1", "R0", "B(R0)" }) {
    Compare(contexts[0], envs[0], expr, Syntax::ASCII, typificationStats);
  }
  gMode = 0;

  Stats grownStats{};
  Grow(contexts[0], envs[0], grownStats, quick ? 0 : 60000);
  Grow(contexts[1], envs[1], grownStats, quick ? 0 : 30000);

  auto report = [](const char* title, const Stats& s) {
    std::printf("%s: checked=%zu (unparsed, skipped=%zu) agree=%zu (of which accepted=%zu) unsupported=%zu "
                "realThrows=%zu realCrashes=%zu knownAccidents=%zu UNEXPLAINED=%zu\n",
      title, s.total, s.unparsed, s.agree, s.agreeAccept, s.unsupported, s.realThrows, s.realCrashes, s.knownAccident, s.disagree);
  };

  std::map<std::string, std::vector<const Finding*>> byClass{};
  for (const auto& finding : findings) { byClass[finding.klass].push_back(&finding); }
  for (const auto& [klass, list] : byClass) {
    std::printf("\n== %s  (%zu inputs)\n", klass.c_str(), list.size());
    const size_t limit = klass == "UNEXPLAINED" || verbose ? list.size() : 12;
    for (size_t i = 0; i < list.size() && i < limit; ++i) {
      std::printf("  [%s] %s\n      real: %s\n      ref : %s\n", list[i]->context.c_str(), list[i]->expr.c_str(), list[i]->real.c_str(), list[i]->mine.c_str());
    }
    if (list.size() > limit) { std::printf("  ... %zu more\n", list.size() - limit); }
  }
  std::printf("\n");
  report("harvested", harvestStats);
  report("generated", generatedStats);
  report("random   ", randomStats);
  report("grown    ", grownStats);
  report("typif.   ", typificationStats);
  return harvestStats.disagree + generatedStats.disagree + randomStats.disagree + grownStats.disagree + typificationStats.disagree == 0 ? 0 : 1;
}
