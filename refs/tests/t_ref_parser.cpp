// Native differential test: ref::Parse / ref::ParseToString (refs/ref_parser.h) against the real
// Bison parser ccl::rslang::detail::RSParser, both fed with the SAME token sequence.
//
// Compared per input: accept/reject, AST2String dump, and the dump with node ranges.
//
// Corpus:
//   (1) every string literal of /repo/ccl/rslang/test/src/*.cpp (t_ref_parser_corpus.inc, made by
//       harvest_corpus.py), lexed with the real MATH lexer and with the real ASCII lexer;
//   (2) a hand-written list of expressions covering every production (MATH syntax);
//   (3) exhaustive token sequences up to a length bound over several reduced alphabets;
//   (4) token-level mutations (delete / insert / replace / swap / wrap in brackets) of all valid
//       inputs found in (1) and (2);
//   (5) random sentences of a deliberately loose grammar (deep nesting, brackets everywhere).
//
// Build: see /verif/refs/README.md.  Usage: t_ref_parser [maxLen=5] [mutationRounds=40] [random=200000]
// Exit code 0 iff there are no disagreements.
#include "ref_parser.h"

#include "ccl/rslang/RSParser.h"
#include "ccl/rslang/MathLexer.h"
#include "ccl/rslang/AsciiLexer.h"

#include <cstdio>
#include <cstdlib>
#include <set>
#include <string>
#include <vector>

using ccl::rslang::Token;
using ccl::rslang::TokenData;
using ccl::rslang::TokenID;
using ccl::rslang::SyntaxTree;
using Tokens = std::vector<Token>;

namespace {

const char* const kHarvested[] = {
#include "t_ref_parser_corpus.inc"
};

const char* const kHandWritten[] = {
  // globals and function definitions
  "X1:==", "D1:==X1\\X2", "S1::=ℬ(X1×X1)", "S1::=", "F1:==[α∈X1, β∈ℬ(X1)] {α}∪β", "P1:==[α∈X1] α=α",
  "[α∈X1] α", "[α∈X1] (α∪α)", "[α∈X1] (α=α)", "F1:==[α∈X1]", "X1:==(X1∪X2)", "X1:==((X1∪X2))", "X1:==(1=1)",
  "F1", "P1", "F1[a]", "P1[a]", "P1[a,b] & F1[a,b]=c", "F1[(a,b)]", "F1[a∪b, c]", "F1[]", "P1[a]∪X1",
  // arithmetic / sets precedence
  "1+2*3", "1*2+3", "1-2-3", "1-(2-3)", "1+2-3+4", "(1+2)*3", "1*(2+3)", "1+2∪3", "1∪2+3", "1*2∪3", "1∪2*3",
  "X1∪X2∩X3", "X1∩X2∪X3", "X1\\X2\\X3", "X1∆X2∪X3\\X4∩X5", "X1×X2×X3", "X1×(X2×X3)", "(X1×X2)×X3",
  "((X1×X2))×X3", "X1×X2∪X3×X4", "X1∪X2×X3×X4", "X1×X2×X3∪X4", "(X1×X2×X3)×X4×X5", "X1×X2×(X3×X4)×X5",
  "(X1)", "((X1))", "(X1∪X2)", "((X1∪X2))", "(((X1∪X2)))", "((X1∪X2)∪X3)", "(X1∪(X2∪X3))", "((X1∪X2))∪((X3∪X4))",
  "(ℬ(X1))", "({X1})", "((a,b))", "(a,b)", "(a,b,c)", "((a,b),c)", "(a,(b,c))", "(a∪b,c)", "((a∪b),c)", "(a,(b∪c))", "(a)",
  "ℬ(X1)", "ℬℬ(X1)", "ℬℬℬ(X1×X2)", "ℬ X1", "ℬ(X1)×X2", "ℬ(X1×X2)", "ℬ((X1×X2))", "ℬ((a,b))", "ℬ(ℬ(X1))×ℬℬ(X2)", "ℬ(1=1)",
  "pr1(a)", "Pr1,2(X1)", "pr1,2,3(a)", "bool(a)", "debool(a)", "red(a)", "card(a)", "card(a∪b)", "card((a∪b))", "card((a,b))",
  "card(a)+card(b)*2", "pr1(a)×Pr2(b)", "card a", "card()", "card(a,b)", "card(1=1)",
  "Fi1[a](b)", "Fi1,2[a,b](c)", "Fi1,2[a∪b,(c,d)]((e∪f))", "Fi1[a]", "Fi1(b)", "Fi1[a](b,c)", "Fi1[](b)",
  "{a}", "{a,b,c}", "{a∪b,(c,d),{e}}", "{}", "{a,}", "{(a∪b)}", "{1=1}", "∅", "Z", "{∅,Z}",
  // predicates
  "a∈X1", "a∉X1", "a⊂X1", "a⊆X1", "a⊄X1", "a=b", "a≠b", "1<2", "1>2", "1≤2", "1≥2", "a∈X1∪X2", "a∪b∈X1∪X2", "1+2=3*4",
  "(a∈X1)", "((a∈X1))", "(a∈X1)∈X2", "a∈(b∈c)", "a∈b∈c", "a=b=c", "(a,b)∈X1", "(a∪b)∈X1", "((a∪b))∈X1",
  // logic
  "¬a∈X1", "¬¬a∈X1", "¬(a∈X1)", "(¬a∈X1)", "¬(¬a∈X1)", "¬((a∈X1))", "¬a∈X1 & b∈X1", "¬(a∈X1 & b∈X1)", "¬P1[a]", "(P1[a])",
  "1=1 & 2=2", "1=1 ∨ 2=2", "1=1 ⇒ 2=2", "1=1 ⇔ 2=2", "1=1 & 2=2 & 3=3", "1=1 ∨ 2=2 & 3=3", "1=1 & 2=2 ∨ 3=3",
  "1=1 ⇒ 2=2 ⇒ 3=3", "1=1 ⇔ 2=2 ⇒ 3=3 ∨ 4=4 & 5=5", "1=1 & 2=2 ∨ 3=3 ⇒ 4=4 ⇔ 5=5", "1=1 ⇔ 2=2 ⇔ 3=3",
  "(1=1 & 2=2)", "((1=1 & 2=2))", "(1=1) & (2=2)", "((1=1) & (2=2))", "(1=1 & 2=2) ∨ 3=3", "1=1 & (2=2 ∨ 3=3)",
  "1=1 & (2=2 ∨ 3=3) & 4=4", "(1=1 ⇒ 2=2) ⇒ 3=3", "1=1 ⇒ (2=2 ⇒ 3=3)", "1=1 & ¬2=2 & 3=3", "1=1 & X1", "X1 & 1=1", "1=1 & (X1∪X2)",
  "∀a∈X1 a=a", "∃a∈X1 a=a", "∀a∈X1 (a=a)", "∀a∈X1 (a=a & a=a)", "∀a∈X1 a=a & a=a", "∀a∈X1 ¬a=a", "(∀a∈X1 a=a)",
  "∀a∈X1 ∃b∈X2 a=b", "∀a∈X1 ∃b∈X2 a=b & 1=1", "¬∀a∈X1 a=a", "∀a,b∈X1 a=b", "∀a,b,c∈X1 a=b", "∀(a,b)∈X1 a=b",
  "∀(a,b),c∈X1 a=b", "∀a,(b,c)∈X1 a=b", "∀(a,(b,c)),(d,e)∈X1 a=b", "∀(a)∈X1 a=a", "∀(a,X1)∈X1 a=a", "∀(a,b∪c)∈X1 a=a",
  "∀((a,b))∈X1 a=a", "∀X1∈X1 a=a", "∀a∈X1", "∀a a=a", "∀a∈X1∪X2 a=a", "∀a∈(X1∪X2) (a=a)", "∀a∈X1 (a∪a)=a", "∀a∈X1 (a,a)=a",
  "∀a∈ℬ(X1) ℬ(a)=a", "∀a∈X1 P1[a]", "∀a∈X1 ∀b∈X1 P1[a,b] ⇒ 1=1", "1=1 & ∀a∈X1 a=a", "1=1 & ∀a∈X1 a=a ∨ 2=2", "∀a∈X1 a=a ⇔ ∃a∈X1 a=a",
  "∀a∈X1 (a=a) & 1=1", "∀a∈X1 ((a=a))", "∀a,∈X1 a=a", "∀,a∈X1 a=a",
  // declarative
  "{a∈X1 | a=a}", "{a∈X1 | a=a & 1=1}", "{a∈X1 | (a=a)}", "{a∈X1 | (a=a) & 1=1}", "{a∈X1 | ¬a=a}", "{a∈X1 | X1}", "{a∈X1 | }",
  "{(a,b)∈X1 | a=b}", "{a∈X1}", "{a∈X1|a=a", "{a∈X1∪X2 | ∀b∈a b=b}", "D{a∈X1 | a=a}", "D{(a,b)∈X1 | a=b}", "D{(a,(b,c))∈X1×(X1×X1) | a=b}",
  "D{a∈X1 | (a=a)}", "D{X1∈X1 | 1=1}", "D{a,b∈X1 | 1=1}", "D{(a,1)∈X1 | 1=1}", "D{a∉X1 | 1=1}", "D a∈X1 | 1=1}", "{a∈X1 | a=a}∪{b∈X2 | b=b}",
  // recursion
  "R{a:=X1 | a∪X1}", "R{a:=X1 | (a∪X1)}", "R{a:=X1 | a}", "R{a:=X1 | a=a | a}", "R{a:=X1 | 1=1 & 2=2 | a∪a}", "R{a:=X1 | (1=1) | a}",
  "R{a:=X1 | (1=1) & 2=2 | a}", "R{(a,b):=(X1,X2) | (a∪b,b)}", "R{(a,b):=(X1,X2) | a=b | (a∪b,b)}", "R{a:=X1 | a | a}", "R{a:=X1 | a=a}",
  "R{a:=X1}", "R{a∈X1 | a}", "R{X1:=X1 | a}", "R{(a,1):=X1 | a}", "R{a:=X1 | a=a | a=a}", "R{a:=X1 | a | a | a}", "R{a:=1=1 | a}",
  // imperative
  "I{a | a:∈X1}", "I{(a,b) | a:∈X1; b:=a}", "I{(a,b) | a:∈X1; b:=a; a≠b}", "I{a | a:∈X1; (a,b):=c; (c,(d,e)):∈X2; 1=1 & 2=2}",
  "I{a | (a:∈X1)}", "I{a | ¬a:∈X1}", "I{a | a:∈X1 & 1=1}", "I{a | a:∈X1;}", "I{a | ;a:∈X1}", "I{a | }", "I{a}", "I{a | X1}", "I{a | 1=1}",
  "I{a | (a,1):∈X1}", "I{a | (a∪b):∈X1}", "I{a | a∪b:∈X1}", "I{a | X1:∈X1}", "I{a | (a,b∪c):=X1}", "I{1=1 | a:∈X1}",
  "I{a | a:∈I{b | b:=X1}}", "I{a | a:∈X1; ∀b∈a b:∈X1}", "I{a | a:∈X1; {b∈X1 | b:=a}=a}", "I{a | a:∈X1} = I{b | b:=X1}",
  "a:∈X1", "a:=X1", "(a,b):=X1", "¬a:=X1", "X1:==a:=X1", "{a∈X1 | a:=X1}", "R{a:=X1 | a:=a | a}", "[a∈X1] a:=a",
  "I{a | a:=X1 | a}", "I{a | a:∈X1; b:∈X1; c:∈X1; d:∈X1}", "I{a | (1=1)}", "I{a | (1=1) & 2=2}", "I{a | ∀b∈X1 1=1}",
  // garbage
  "", "(", ")", "()", "a b", "a,b", "a∪", "∪a", "a∪∪b", "1=", "=1", "&", "1=1 &", "& 1=1", "1=1 2=2", "X1:==:==", ":==X1", "a:==X1", "X1:==X2:==X3",
  "X1::=X2::=X3", "X1:==[a∈X1] [b∈X1] a", "[a∈X1, b] a", "[a∈X1,] a", "[] a", "[a] a", "[a∈X1 a", "[a∈1=1] a", "@", "X1 @", "X1∪@", "1=1 @ 2=2",
  "pr0(a)" /* lexed as pr + empty index list: see note in ref_parser.h; skipped for the real dump */,
};

struct Stats {
  long total{ 0 };
  long accepted{ 0 };
  long disagreements{ 0 };
};

Stats gStats;
bool gVerbose = false;

std::string Describe(const Tokens& tokens) {
  std::string text{};
  for (const auto& token : tokens) {
    if (token.id == TokenID::INTERRUPT) {
      text += "<?>";
    } else if ((token.id == TokenID::BIGPR || token.id == TokenID::SMALLPR || token.id == TokenID::FILTER) &&
               (!token.data.IsTuple() || token.data.ToTuple().empty())) {
      text += Token::Str(token.id);
    } else {
      text += token.ToString();
    }
    text += ' ';
  }
  return text;
}

void DumpReal(SyntaxTree::Cursor cursor, std::string& out) {
  out += '[';
  out += cursor->ToString();
  out += '@';
  out += std::to_string(cursor->pos.start);
  out += ':';
  out += std::to_string(cursor->pos.finish);
  for (ccl::rslang::Index child = 0; child < cursor.ChildrenCount(); ++child) {
    DumpReal(cursor.Child(child), out);
  }
  out += ']';
}

bool HasEmptyIndex(const Tokens& tokens) {
  for (const auto& token : tokens) {
    if ((token.id == TokenID::BIGPR || token.id == TokenID::SMALLPR || token.id == TokenID::FILTER) &&
        (!token.data.IsTuple() || token.data.ToTuple().empty())) {
      return true;
    }
  }
  return false;
}

//! Run both parsers on the same tokens; returns true iff the real parser accepted
bool Check(const Tokens& tokens, const char* origin) {
  static ccl::rslang::detail::RSParser parser{};
  ++gStats.total;

  size_t next = 0;
  const int32_t endPos = tokens.empty() ? 0 : tokens.back().pos.finish;
  const bool realOk = parser.Parse([&]() {
    if (next < tokens.size()) {
      return tokens[next++];
    }
    return Token{ TokenID::END, ccl::StrRange{ endPos, endPos } };
  });
  const bool dumpable = !HasEmptyIndex(tokens);  // real Token::ToString is UB for empty index list
  std::string realDump{};
  std::string realRanges{};
  if (realOk && dumpable) {
    realDump = ccl::rslang::AST2String::Apply(parser.AST());
    DumpReal(parser.AST().Root(), realRanges);
  }

  const auto refDump = ref::ParseToString(tokens);
  const auto refTree = ref::Parse(tokens);
  std::string refRanges{};
  if (refTree.has_value()) {
    ref::DumpWithRanges(refTree.value(), refRanges);
  }

  bool same = realOk == refDump.has_value() && refDump.has_value() == refTree.has_value();
  if (same && realOk && dumpable) {
    same = realDump == refDump.value() && realRanges == refRanges && ref::ToString(refTree.value()) == refDump.value();
  }
  if (realOk) {
    ++gStats.accepted;
  }
  if (!same) {
    ++gStats.disagreements;
    if (gStats.disagreements <= 60) {
      std::printf("DISAGREE [%s] tokens: %s\n  real: %s %s\n        %s\n  ref : %s %s\n        %s\n",
        origin, Describe(tokens).c_str(),
        realOk ? "ACCEPT" : "REJECT", realDump.c_str(), realRanges.c_str(),
        refDump.has_value() ? "ACCEPT" : "REJECT", refDump.value_or("").c_str(), refRanges.c_str());
    }
  } else if (gVerbose) {
    std::printf("ok   %s  =>  %s\n", Describe(tokens).c_str(), realOk ? realRanges.c_str() : "REJECT");
  }
  return realOk;
}

template<typename Lexer>
Tokens Lex(const std::string& text) {
  Lexer lexer{};
  auto stream = lexer(text).Stream();
  Tokens result{};
  for (;;) {
    auto token = stream();
    if (token.id == TokenID::END) {
      return result;
    }
    result.push_back(std::move(token));
  }
}

//! Give tokens fresh, strictly increasing, non-adjacent positions (token k has length k%3+1)
void Reposition(Tokens& tokens) {
  int32_t pos = 1;
  for (size_t k = 0; k < tokens.size(); ++k) {
    const auto length = static_cast<int32_t>(k % 3 + 1);
    tokens[k].pos = ccl::StrRange{ pos, pos + length };
    pos += length + static_cast<int32_t>(k % 2);
  }
}

Token Tk(TokenID id) {
  return Token{ id, ccl::StrRange{} };
}
Token Name(TokenID id, const char* text) {
  return Token{ id, ccl::StrRange{}, TokenData{ std::string{ text } } };
}
Token Int(int32_t value) {
  return Token{ TokenID::LIT_INTEGER, ccl::StrRange{}, TokenData{ value } };
}
Token Idx(TokenID id, std::vector<ccl::rslang::Index> indices) {
  return Token{ id, ccl::StrRange{}, TokenData{ std::move(indices) } };
}

// ------------------------------------------------------------------------------------------------
// (3) exhaustive enumeration
void Exhaustive(const char* name, const Tokens& alphabet, const Tokens& prefix, const Tokens& suffix, size_t maxLen) {
  const auto before = gStats;
  std::vector<size_t> digits{};
  for (size_t len = 0; len <= maxLen; ++len) {
    digits.assign(len, 0);
    for (;;) {
      Tokens tokens = prefix;
      for (const auto d : digits) {
        tokens.push_back(alphabet[d]);
      }
      tokens.insert(tokens.end(), suffix.begin(), suffix.end());
      Reposition(tokens);
      Check(tokens, name);
      size_t k = 0;
      while (k < len && ++digits[k] == alphabet.size()) {
        digits[k++] = 0;
      }
      if (k == len) {
        break;
      }
    }
  }
  std::printf("exhaustive %-12s |alphabet|=%2zu len<=%zu : %9ld sequences, %7ld accepted, %ld disagreements\n",
    name, alphabet.size(), maxLen, gStats.total - before.total, gStats.accepted - before.accepted,
    gStats.disagreements - before.disagreements);
  std::fflush(stdout);
}

// ------------------------------------------------------------------------------------------------
// (4) mutations
uint64_t gSeed = 0x9E3779B97F4A7C15ULL;
uint32_t Rnd(uint32_t bound) {
  gSeed ^= gSeed << 13;
  gSeed ^= gSeed >> 7;
  gSeed ^= gSeed << 17;
  return static_cast<uint32_t>((gSeed >> 11) % bound);
}

Tokens FullAlphabet() {
  return Tokens{
    Name(TokenID::ID_LOCAL, "a"), Name(TokenID::ID_LOCAL, "b"), Name(TokenID::ID_GLOBAL, "X1"), Name(TokenID::ID_FUNCTION, "F1"),
    Name(TokenID::ID_PREDICATE, "P1"), Name(TokenID::ID_RADICAL, "R1"), Int(1), Tk(TokenID::LIT_INTSET), Tk(TokenID::LIT_EMPTYSET),
    Tk(TokenID::PLUS), Tk(TokenID::MINUS), Tk(TokenID::MULTIPLY), Tk(TokenID::GREATER), Tk(TokenID::LESSER),
    Tk(TokenID::GREATER_OR_EQ), Tk(TokenID::LESSER_OR_EQ), Tk(TokenID::EQUAL), Tk(TokenID::NOTEQUAL), Tk(TokenID::FORALL),
    Tk(TokenID::EXISTS), Tk(TokenID::NOT), Tk(TokenID::EQUIVALENT), Tk(TokenID::IMPLICATION), Tk(TokenID::OR), Tk(TokenID::AND),
    Tk(TokenID::IN), Tk(TokenID::NOTIN), Tk(TokenID::SUBSET), Tk(TokenID::SUBSET_OR_EQ), Tk(TokenID::NOTSUBSET),
    Tk(TokenID::DECART), Tk(TokenID::UNION), Tk(TokenID::INTERSECTION), Tk(TokenID::SET_MINUS), Tk(TokenID::SYMMINUS),
    Tk(TokenID::BOOLEAN), Idx(TokenID::BIGPR, { 1 }), Idx(TokenID::SMALLPR, { 1, 2 }), Idx(TokenID::FILTER, { 1 }),
    Tk(TokenID::CARD), Tk(TokenID::BOOL), Tk(TokenID::DEBOOL), Tk(TokenID::REDUCE), Tk(TokenID::DECLARATIVE),
    Tk(TokenID::RECURSIVE), Tk(TokenID::IMPERATIVE), Tk(TokenID::ITERATE), Tk(TokenID::ASSIGN), Tk(TokenID::PUNC_DEFINE),
    Tk(TokenID::PUNC_STRUCT), Tk(TokenID::PUNC_PL), Tk(TokenID::PUNC_PR), Tk(TokenID::PUNC_CL), Tk(TokenID::PUNC_CR),
    Tk(TokenID::PUNC_SL), Tk(TokenID::PUNC_SR), Tk(TokenID::PUNC_BAR), Tk(TokenID::PUNC_COMMA), Tk(TokenID::PUNC_SEMICOLON),
    // ids that never come from a lexer / never belong in a token stream
    Tk(TokenID::INTERRUPT), Tk(TokenID::NT_TUPLE), Tk(TokenID::NT_ENUM_DECL), Tk(TokenID::NT_RECURSIVE_SHORT),
  };
}

void Mutate(const std::vector<Tokens>& seeds, int rounds) {
  const auto before = gStats;
  const auto alphabet = FullAlphabet();
  for (const auto& seed : seeds) {
    // systematic: every single deletion, every adjacent swap, every bracket pair around every span (short seeds)
    for (size_t k = 0; k < seed.size(); ++k) {
      Tokens t = seed;
      t.erase(t.begin() + static_cast<std::ptrdiff_t>(k));
      Reposition(t);
      Check(t, "mut-del");
    }
    for (size_t k = 0; k + 1 < seed.size(); ++k) {
      Tokens t = seed;
      std::swap(t[k], t[k + 1]);
      Reposition(t);
      Check(t, "mut-swap");
    }
    if (seed.size() <= 24) {
      for (size_t from = 0; from < seed.size(); ++from) {
        for (size_t to = from + 1; to <= seed.size(); ++to) {
          Tokens t = seed;
          t.insert(t.begin() + static_cast<std::ptrdiff_t>(to), Tk(TokenID::PUNC_PR));
          t.insert(t.begin() + static_cast<std::ptrdiff_t>(from), Tk(TokenID::PUNC_PL));
          Reposition(t);
          if (Check(t, "mut-wrap")) {
            // once more around the same span: doubly bracketed
            t.insert(t.begin() + static_cast<std::ptrdiff_t>(to + 2), Tk(TokenID::PUNC_PR));
            t.insert(t.begin() + static_cast<std::ptrdiff_t>(from), Tk(TokenID::PUNC_PL));
            Reposition(t);
            Check(t, "mut-wrap2");
          }
        }
      }
    }
    // random: replace / insert
    for (int r = 0; r < rounds; ++r) {
      Tokens t = seed;
      const int edits = 1 + static_cast<int>(Rnd(2));
      for (int e = 0; e < edits && !t.empty(); ++e) {
        const auto where = Rnd(static_cast<uint32_t>(t.size()));
        const auto& symbol = alphabet[Rnd(static_cast<uint32_t>(alphabet.size()))];
        if (Rnd(2) == 0) {
          t[where] = symbol;
        } else {
          t.insert(t.begin() + where, symbol);
        }
      }
      Reposition(t);
      Check(t, "mut-rnd");
    }
  }
  std::printf("mutations of %zu valid seeds: %ld sequences, %ld accepted, %ld disagreements\n",
    seeds.size(), gStats.total - before.total, gStats.accepted - before.accepted, gStats.disagreements - before.disagreements);
  std::fflush(stdout);
}

// ------------------------------------------------------------------------------------------------
// (5) random sentences of a loose grammar: any phrase may be bracketed, logic and set phrases are
// mixed up with small probability, so both valid and invalid deep inputs come out.
struct Loose {
  Tokens out{};

  void Local() { out.push_back(Name(TokenID::ID_LOCAL, Rnd(2) == 0 ? "a" : "b")); }
  void Variable(int depth) {
    if (depth <= 0 || Rnd(3) != 0) {
      Local();
      return;
    }
    out.push_back(Tk(TokenID::PUNC_PL));
    const auto n = 1 + Rnd(3);
    for (uint32_t k = 0; k < n; ++k) {
      if (k != 0) out.push_back(Tk(TokenID::PUNC_COMMA));
      if (Rnd(12) == 0) Set(depth - 1); else Variable(depth - 1);
    }
    out.push_back(Tk(TokenID::PUNC_PR));
  }
  void List(int depth, TokenID separator, bool logic) {
    const auto n = 1 + Rnd(3);
    for (uint32_t k = 0; k < n; ++k) {
      if (k != 0) out.push_back(Tk(separator));
      if (logic) Logic(depth); else Set(depth);
    }
  }
  void Set(int depth) {
    if (Rnd(40) == 0) { Logic(depth - 1); return; }
    const auto choice = depth <= 0 ? Rnd(4) : Rnd(22);
    switch (choice) {
    case 0: Local(); break;
    case 1: out.push_back(Name(TokenID::ID_GLOBAL, "X1")); break;
    case 2: out.push_back(Int(static_cast<int32_t>(Rnd(3)))); break;
    case 3: out.push_back(Rnd(2) == 0 ? Tk(TokenID::LIT_EMPTYSET) : Name(Rnd(2) == 0 ? TokenID::ID_FUNCTION : TokenID::ID_PREDICATE, "F1")); break;
    case 4: case 5: case 6: case 7: case 8: {
      static const TokenID ops[] = { TokenID::PLUS, TokenID::MINUS, TokenID::MULTIPLY, TokenID::DECART, TokenID::DECART,
        TokenID::UNION, TokenID::INTERSECTION, TokenID::SET_MINUS, TokenID::SYMMINUS, TokenID::DECART };
      Set(depth - 1);
      out.push_back(Tk(ops[Rnd(10)]));
      Set(depth - 1);
      break;
    }
    case 9: case 10: case 11:
      out.push_back(Tk(TokenID::PUNC_PL)); Set(depth - 1); out.push_back(Tk(TokenID::PUNC_PR)); break;
    case 12:
      out.push_back(Tk(TokenID::PUNC_PL)); List(depth - 1, TokenID::PUNC_COMMA, false); out.push_back(Tk(TokenID::PUNC_PR)); break;
    case 13:
      out.push_back(Tk(TokenID::PUNC_CL)); List(depth - 1, TokenID::PUNC_COMMA, false); out.push_back(Tk(TokenID::PUNC_CR)); break;
    case 14:
      for (auto n = 1 + Rnd(2); n != 0; --n) out.push_back(Tk(TokenID::BOOLEAN));
      if (Rnd(10) != 0) out.push_back(Tk(TokenID::PUNC_PL));
      Set(depth - 1);
      out.push_back(Tk(TokenID::PUNC_PR));
      break;
    case 15: {
      static const TokenID ops[] = { TokenID::CARD, TokenID::BOOL, TokenID::DEBOOL, TokenID::REDUCE };
      if (Rnd(2) == 0) out.push_back(Tk(ops[Rnd(4)])); else out.push_back(Idx(Rnd(2) == 0 ? TokenID::BIGPR : TokenID::SMALLPR, { 1, 2 }));
      out.push_back(Tk(TokenID::PUNC_PL)); Set(depth - 1); out.push_back(Tk(TokenID::PUNC_PR));
      break;
    }
    case 16:
      out.push_back(Name(TokenID::ID_FUNCTION, "F1"));
      out.push_back(Tk(TokenID::PUNC_SL)); List(depth - 1, TokenID::PUNC_COMMA, false); out.push_back(Tk(TokenID::PUNC_SR));
      break;
    case 17:
      out.push_back(Idx(TokenID::FILTER, { 1 }));
      out.push_back(Tk(TokenID::PUNC_SL)); List(depth - 1, TokenID::PUNC_COMMA, false); out.push_back(Tk(TokenID::PUNC_SR));
      out.push_back(Tk(TokenID::PUNC_PL)); Set(depth - 1); out.push_back(Tk(TokenID::PUNC_PR));
      break;
    case 18:
      if (Rnd(2) == 0) { out.push_back(Tk(TokenID::PUNC_CL)); Local(); }
      else { out.push_back(Tk(TokenID::DECLARATIVE)); out.push_back(Tk(TokenID::PUNC_CL)); Variable(depth - 1); }
      out.push_back(Tk(TokenID::IN)); Set(depth - 1); out.push_back(Tk(TokenID::PUNC_BAR)); Logic(depth - 1);
      out.push_back(Tk(TokenID::PUNC_CR));
      break;
    case 19:
      out.push_back(Tk(TokenID::RECURSIVE)); out.push_back(Tk(TokenID::PUNC_CL)); Variable(depth - 1);
      out.push_back(Tk(TokenID::ASSIGN)); Set(depth - 1); out.push_back(Tk(TokenID::PUNC_BAR));
      if (Rnd(2) == 0) { Logic(depth - 1); out.push_back(Tk(TokenID::PUNC_BAR)); }
      Set(depth - 1); out.push_back(Tk(TokenID::PUNC_CR));
      break;
    default:
      out.push_back(Tk(TokenID::IMPERATIVE)); out.push_back(Tk(TokenID::PUNC_CL)); Set(depth - 1); out.push_back(Tk(TokenID::PUNC_BAR));
      for (auto n = 1 + Rnd(3); n != 0; --n) {
        if (Rnd(3) == 0) Logic(depth - 1); else { Variable(depth - 1); out.push_back(Tk(Rnd(2) == 0 ? TokenID::ITERATE : TokenID::ASSIGN)); Set(depth - 1); }
        if (n != 1) out.push_back(Tk(TokenID::PUNC_SEMICOLON));
      }
      out.push_back(Tk(TokenID::PUNC_CR));
      break;
    }
  }
  void Logic(int depth) {
    if (Rnd(40) == 0) { Set(depth - 1); return; }
    const auto choice = depth <= 0 ? 0 : Rnd(14);
    switch (choice) {
    default: {
      static const TokenID ops[] = { TokenID::IN, TokenID::NOTIN, TokenID::SUBSET, TokenID::EQUAL, TokenID::NOTEQUAL, TokenID::LESSER_OR_EQ };
      Set(depth - 2); out.push_back(Tk(ops[Rnd(6)])); Set(depth - 2);
      break;
    }
    case 3: case 4: case 5: case 6: {
      static const TokenID ops[] = { TokenID::AND, TokenID::OR, TokenID::IMPLICATION, TokenID::EQUIVALENT };
      Logic(depth - 1); out.push_back(Tk(ops[Rnd(4)])); Logic(depth - 1);
      break;
    }
    case 7: case 8: case 9:
      out.push_back(Tk(TokenID::PUNC_PL)); Logic(depth - 1); out.push_back(Tk(TokenID::PUNC_PR)); break;
    case 10:
      out.push_back(Tk(TokenID::NOT)); Logic(depth - 1); break;
    case 11: case 12:
      out.push_back(Tk(Rnd(2) == 0 ? TokenID::FORALL : TokenID::EXISTS));
      for (auto n = 1 + Rnd(2); n != 0; --n) { Variable(depth - 1); if (n != 1) out.push_back(Tk(TokenID::PUNC_COMMA)); }
      out.push_back(Tk(TokenID::IN)); Set(depth - 2); Logic(depth - 1);
      break;
    case 13:
      out.push_back(Name(TokenID::ID_PREDICATE, "P1"));
      out.push_back(Tk(TokenID::PUNC_SL)); List(depth - 1, TokenID::PUNC_COMMA, false); out.push_back(Tk(TokenID::PUNC_SR));
      break;
    }
  }
};

void RandomSentences(long count) {
  const auto before = gStats;
  for (long k = 0; k < count; ++k) {
    Loose gen{};
    const int depth = 1 + static_cast<int>(Rnd(5));
    const auto top = Rnd(10);
    if (top == 0) {
      gen.out.push_back(Name(TokenID::ID_GLOBAL, "D1"));
      gen.out.push_back(Tk(Rnd(2) == 0 ? TokenID::PUNC_DEFINE : TokenID::PUNC_STRUCT));
    }
    if (top <= 1) {
      gen.out.push_back(Tk(TokenID::PUNC_SL));
      for (auto n = 1 + Rnd(2); n != 0; --n) {
        gen.Local(); gen.out.push_back(Tk(TokenID::IN)); gen.Set(depth - 1);
        if (n != 1) gen.out.push_back(Tk(TokenID::PUNC_COMMA));
      }
      gen.out.push_back(Tk(TokenID::PUNC_SR));
    }
    if (Rnd(2) == 0) gen.Logic(depth); else gen.Set(depth);
    if (gen.out.size() > 400) {
      continue;
    }
    Reposition(gen.out);
    Check(gen.out, "random");
  }
  std::printf("random loose-grammar sentences: %ld sequences, %ld accepted, %ld disagreements\n",
    gStats.total - before.total, gStats.accepted - before.accepted, gStats.disagreements - before.disagreements);
  std::fflush(stdout);
}

} // namespace

int main(int argc, char** argv) {
  const size_t maxLen = argc > 1 ? static_cast<size_t>(std::atoi(argv[1])) : 5;
  const int rounds = argc > 2 ? std::atoi(argv[2]) : 40;
  const long randomCount = argc > 3 ? std::atol(argv[3]) : 200000;
  gVerbose = argc > 4;

  // (1) + (2) texts through the real lexers
  std::vector<Tokens> seeds{};
  std::set<std::string> seen{};
  auto addText = [&](const std::string& text, bool math, const char* origin) {
    const Tokens tokens = math ? Lex<ccl::rslang::detail::MathLexer>(text) : Lex<ccl::rslang::detail::AsciiLexer>(text);
    if (Check(tokens, origin) && seen.insert(Describe(tokens)).second) {
      seeds.push_back(tokens);
    }
  };
  auto before = gStats;
  for (const auto* text : kHarvested) {
    addText(text, true, "harvest-math");
    addText(text, false, "harvest-ascii");
  }
  std::printf("harvested literals: %zu texts x 2 lexers = %ld inputs, %ld accepted, %ld disagreements\n",
    std::size(kHarvested), gStats.total - before.total, gStats.accepted - before.accepted, gStats.disagreements - before.disagreements);
  before = gStats;
  for (const auto* text : kHandWritten) {
    addText(text, true, "hand");
  }
  std::printf("hand-written: %ld inputs, %ld accepted, %ld disagreements\n",
    gStats.total - before.total, gStats.accepted - before.accepted, gStats.disagreements - before.disagreements);
  std::fflush(stdout);

  if (gVerbose) {
    return gStats.disagreements == 0 ? 0 : 1;
  }

  // (3) exhaustive enumerations
  const Token a = Name(TokenID::ID_LOCAL, "a");
  const Token b = Name(TokenID::ID_LOCAL, "b");
  const Token X = Name(TokenID::ID_GLOBAL, "X1");
  const Token one = Int(1);
  const Token LP = Tk(TokenID::PUNC_PL), RP = Tk(TokenID::PUNC_PR), LC = Tk(TokenID::PUNC_CL), RC = Tk(TokenID::PUNC_CR);
  const Token LS = Tk(TokenID::PUNC_SL), RS = Tk(TokenID::PUNC_SR), BAR = Tk(TokenID::PUNC_BAR), COMMA = Tk(TokenID::PUNC_COMMA);
  const Token EQ = Tk(TokenID::EQUAL), IN = Tk(TokenID::IN);

  // logic skeleton: atoms are single tokens here is impossible (an atom is "1=1"), so use X1,=,... directly
  Exhaustive("logic", { one, EQ, Tk(TokenID::NOT), Tk(TokenID::AND), Tk(TokenID::OR), Tk(TokenID::IMPLICATION),
    Tk(TokenID::EQUIVALENT), LP, RP }, {}, {}, maxLen + 2);
  Exhaustive("logic-pre", { one, EQ, Tk(TokenID::NOT), Tk(TokenID::AND), Tk(TokenID::OR), Tk(TokenID::IMPLICATION),
    Tk(TokenID::EQUIVALENT), LP, RP }, { one, EQ, one }, {}, maxLen + 1);
  Exhaustive("logic-mid", { one, EQ, Tk(TokenID::NOT), Tk(TokenID::AND), Tk(TokenID::OR), Tk(TokenID::IMPLICATION),
    Tk(TokenID::EQUIVALENT), LP, RP }, { LP, one, EQ, one }, { one, EQ, one }, maxLen + 1);
  Exhaustive("quant", { a, X, IN, EQ, COMMA, Tk(TokenID::FORALL), Tk(TokenID::EXISTS), Tk(TokenID::NOT), Tk(TokenID::AND), LP, RP },
    {}, {}, maxLen + 1);
  Exhaustive("quant-pre", { a, X, IN, EQ, COMMA, Tk(TokenID::FORALL), Tk(TokenID::NOT), Tk(TokenID::AND), LP, RP },
    { Tk(TokenID::FORALL) }, { a, EQ, a }, maxLen + 1);
  Exhaustive("set", { X, one, Tk(TokenID::PLUS), Tk(TokenID::MINUS), Tk(TokenID::MULTIPLY), Tk(TokenID::UNION), Tk(TokenID::INTERSECTION),
    Tk(TokenID::SET_MINUS), Tk(TokenID::SYMMINUS), Tk(TokenID::DECART), Tk(TokenID::BOOLEAN), LP, RP, COMMA }, {}, {}, maxLen);
  Exhaustive("set-small", { X, Tk(TokenID::PLUS), Tk(TokenID::MULTIPLY), Tk(TokenID::UNION), Tk(TokenID::DECART), Tk(TokenID::BOOLEAN),
    LP, RP, COMMA }, {}, {}, maxLen + 2);
  Exhaustive("decart", { X, Tk(TokenID::DECART), Tk(TokenID::UNION), LP, RP }, {}, {}, maxLen + 5);
  Exhaustive("mixed", { a, X, EQ, IN, Tk(TokenID::UNION), Tk(TokenID::AND), Tk(TokenID::NOT), LP, RP, COMMA, Tk(TokenID::BOOLEAN) },
    {}, {}, maxLen + 1);
  Exhaustive("ctor", { a, X, IN, EQ, BAR, LC, RC, COMMA, LP, RP, Tk(TokenID::DECLARATIVE), Tk(TokenID::AND) }, {}, {}, maxLen + 1);
  Exhaustive("ctor-D", { a, X, IN, EQ, BAR, LC, RC, COMMA, LP, RP, Tk(TokenID::AND) }, { Tk(TokenID::DECLARATIVE), LC }, {}, maxLen + 1);
  Exhaustive("ctor-D2", { a, X, IN, EQ, BAR, RC, COMMA, LP, RP, Tk(TokenID::AND), Tk(TokenID::NOT) }, { Tk(TokenID::DECLARATIVE), LC },
    { EQ, a, RC }, maxLen + 1);
  Exhaustive("ctor-short", { a, X, IN, EQ, BAR, RC, COMMA, LP, RP, Tk(TokenID::AND), Tk(TokenID::NOT) }, { LC, a }, { EQ, a, RC }, maxLen + 1);
  Exhaustive("ctor-R", { a, X, Tk(TokenID::ASSIGN), EQ, BAR, LC, RC, COMMA, LP, RP, Tk(TokenID::UNION) },
    { Tk(TokenID::RECURSIVE), LC }, {}, maxLen + 1);
  Exhaustive("ctor-R2", { a, X, EQ, BAR, RC, LP, RP, Tk(TokenID::UNION), Tk(TokenID::AND) },
    { Tk(TokenID::RECURSIVE), LC, a, Tk(TokenID::ASSIGN), X, BAR }, {}, maxLen + 2);
  Exhaustive("ctor-I", { a, b, X, Tk(TokenID::ASSIGN), Tk(TokenID::ITERATE), EQ, BAR, RC, COMMA, LP, RP, Tk(TokenID::PUNC_SEMICOLON),
    Tk(TokenID::AND), Tk(TokenID::NOT) }, { Tk(TokenID::IMPERATIVE), LC, a, BAR }, {}, maxLen);
  Exhaustive("imp-free", { a, X, Tk(TokenID::ASSIGN), Tk(TokenID::ITERATE), EQ, BAR, LC, RC, LP, RP, COMMA, Tk(TokenID::IMPERATIVE),
    Tk(TokenID::PUNC_SEMICOLON) }, {}, {}, maxLen);
  Exhaustive("calls", { a, Name(TokenID::ID_FUNCTION, "F1"), Name(TokenID::ID_PREDICATE, "P1"), LS, RS, LP, RP, COMMA, Idx(TokenID::FILTER, { 1, 2 }),
    Idx(TokenID::SMALLPR, { 1 }), Tk(TokenID::CARD), EQ, Tk(TokenID::AND) }, {}, {}, maxLen);
  Exhaustive("global", { a, X, Name(TokenID::ID_FUNCTION, "F1"), Name(TokenID::ID_PREDICATE, "P1"), Tk(TokenID::PUNC_DEFINE), Tk(TokenID::PUNC_STRUCT),
    LS, RS, IN, EQ, COMMA, LP, RP }, {}, {}, maxLen);
  Exhaustive("funcdef", { a, X, LS, RS, IN, EQ, COMMA, LP, RP, Tk(TokenID::UNION) }, { Name(TokenID::ID_FUNCTION, "F1"), Tk(TokenID::PUNC_DEFINE), LS },
    {}, maxLen + 1);
  Exhaustive("all-ids", FullAlphabet(), {}, {}, maxLen > 3 ? 3 : maxLen);

  // (4) mutations of everything valid seen so far
  Mutate(seeds, rounds);

  // (5) random loose sentences
  RandomSentences(randomCount);

  std::printf("TOTAL: %ld inputs, %ld accepted by the real parser, %ld disagreements\n",
    gStats.total, gStats.accepted, gStats.disagreements);
  return gStats.disagreements == 0 ? 0 : 1;
}
