#!/usr/bin/env python3
"""Harvest expression literals from the upstream rslang unit tests (used only as data).

Usage: harvest.py > /var/tmp/t_ref_types_harvest.txt
Every C++ string literal (raw R"(...)" and ordinary "...") of the listed test files is written on
its own line; the driver tries to parse each line (ASCII and MATH syntax) and silently skips
lines that are not RSLang expressions.
"""
import re
import sys

FILES = [
    "testTypeAuditor.cpp", "testAuditor.cpp", "testValueAuditor.cpp",
    "testASTInterpreter.cpp", "testInterpreter.cpp",
    # extra data: same language, more shapes
    "testRSParser.cpp", "testASTNormalizer.cpp", "testRSGenerator.cpp", "testParser.cpp",
]
ROOT = "/repo/ccl/rslang/test/src/"

RAW = re.compile(r'R"\((.*?)\)"', re.S)
ORD = re.compile(r'(?<![R\w])"((?:[^"\\\n]|\\.)*)"')

seen = []
for name in FILES:
    try:
        text = open(ROOT + name, encoding="utf-8").read()
    except OSError:
        continue
    found = RAW.findall(text)
    stripped = RAW.sub('""', text)
    for lit in ORD.findall(stripped):
        try:
            found.append(bytes(lit, "utf-8").decode("unicode_escape").encode("latin-1").decode("utf-8"))
        except (UnicodeDecodeError, UnicodeEncodeError):
            found.append(lit)
    for lit in found:
        lit = lit.strip()
        if not lit or "\n" in lit or lit in seen:
            continue
        seen.append(lit)

sys.stdout.write("\n".join(seen) + "\n")
