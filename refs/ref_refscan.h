// Reference reader for one "@{...}" candidate (independent of /repo): is the text between the braces
// a well-formed reference, and of which kind.  Grammar (from the documented formats):
//   entity:        @{<name>|<tags>}        name starts with a letter, tags = comma separated grammemes
//   entity(legacy):@{<name>|<tag>|<tag>[|<digits...>]}   3..4 fields, a trailing field that starts with a digit is ignored
//   collaboration: @{<integer>|<text>}     integer = -?[0-9]+ that fits into int16
// A form with no recognisable grammeme makes the reference invalid.
#pragma once
#include <string>
#include <vector>
#include <cstdint>
namespace ref {
enum RefKind { REF_INVALID = 0, REF_ENTITY = 1, REF_COLLAB = 2 };
inline bool rsIsSpace(unsigned char c) { return c == ' ' || (c >= 9 && c <= 13); }
inline bool rsIsAlpha(unsigned char c) { return (c >= 'a' && c <= 'z') || (c >= 'A' && c <= 'Z'); }
inline bool rsIsDigit(unsigned char c) { return c >= '0' && c <= '9'; }
inline std::vector<std::string> rsSplit(const std::string& s, char d) {
  std::vector<std::string> out; std::string cur;
  for (char c : s) { if (c == d) { out.push_back(cur); cur.clear(); } else cur += c; }
  out.push_back(cur);
  return out;
}
inline std::string rsTrim(const std::string& s) {
  size_t a = 0, b = s.size();
  while (a < b && rsIsSpace((unsigned char)s[a])) ++a;
  while (b > a && rsIsSpace((unsigned char)s[b - 1])) --b;
  return s.substr(a, b - a);
}
inline bool rsIsGrammem(const std::string& t) {
  static const char* const NAMES[] = {"NOUN", "NPRO", "INFN", "VERB", "ADJF", "ADJS", "PRTF", "PRTS", "ADVB", "GRND", "COMP", "PRED", "NUMR", "CONJ", "INTJ",
    "PRCL", "PREP", "PNCT", "pres", "past", "futr", "1per", "2per", "3per", "sing", "plur", "masc", "femn", "neut", "nomn", "gent", "datv", "ablt", "accs", "loct"};
  for (const char* n : NAMES) if (t == n) return true;
  return false;
}
struct RefInfo { RefKind kind = REF_INVALID; std::string entity; int offset = 0; std::string nominal; };
inline RefInfo ReadReference(const std::string& inner) {
  RefInfo r;
  if (inner.empty()) return r;
  std::vector<std::string> f = rsSplit(inner, '|');
  if (f.size() < 2 || f.size() > 4 || f[0].empty()) return r;
  if (rsIsAlpha((unsigned char)f[0][0])) {
    std::vector<std::string> tags;
    if (f.size() == 2) tags = rsSplit(f[1], ',');
    else {
      for (size_t i = 1; i < f.size(); ++i) tags.push_back(f[i]);
      if (!tags.back().empty() && rsIsDigit((unsigned char)tags.back()[0])) tags.pop_back();
    }
    bool any = false;
    for (const auto& t : tags) if (rsIsGrammem(rsTrim(t))) any = true;
    if (!any) return r;
    r.kind = REF_ENTITY; r.entity = f[0];
    return r;
  }
  if (f.size() != 2) return r;
  size_t i = 0; bool neg = false;
  if (f[0][0] == '-') { neg = true; i = 1; if (f[0].size() == 1) return r; }
  long v = 0;
  for (; i < f[0].size(); ++i) {
    if (!rsIsDigit((unsigned char)f[0][i])) return r;
    v = v * 10 + (f[0][i] - '0');
    if (v > 40000) return r;   // does not fit into int16: not a usable offset
  }
  if (neg) v = -v;
  if (v < -32768 || v > 32767) return r;
  r.kind = REF_COLLAB; r.offset = (int)v; r.nominal = f[1];
  return r;
}
}  // namespace ref
