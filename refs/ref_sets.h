// ref_sets.h -- reference model of finite typed set theory values (oracle, independent of /repo).
//
// A ref::Value is a finite mathematical object of RSLang's typed set theory:
//   ELEM  : an integer / an element of a base set (both are int32 "elements" in ConceptCore),
//   TUPLE : an ordered tuple of >= 2 components (a 1-tuple IS its component, see MakeTuple),
//   SET   : a finite set, stored in CANONICAL FORM: `items` strictly increasing w.r.t. Compare
//           (hence no duplicates).  Two same-typed values are mathematically equal iff they are
//           structurally identical in canonical form, i.e. iff Compare(a,b)==0.
//
// Everything here is the textbook definition evaluated directly: no laziness, no caches, no
// hashing.  All set constructors go through MakeSet (linear insertion + dedup), so canonical form
// does not depend on the order in which elements were produced.
//
// Written for symbolic execution: Value::elem may be symbolic, so the only data-dependent branches
// are the `==` and `<` on two int32 in Compare.  Sizes, kinds and shapes are concrete whenever the
// shape of the inputs is concrete.  No exceptions, no static state, no UB (sizes are checked before
// anything is built: see Powerset/Product `limit`).
//
// Allowed headers only: <string> <vector> <cstdint> <optional> <utility> <algorithm>.
#pragma once

#include <cstdint>
#include <optional>
#include <utility>
#include <vector>

namespace ref {

struct Value {
  enum Kind : uint8_t { ELEM, TUPLE, SET };
  Kind kind{ SET };            // default-constructed Value is the empty set
  int32_t elem{ 0 };           // ELEM only
  std::vector<Value> items{};  // TUPLE: components in order; SET: canonical (sorted, unique)
};

//! Total order on values. 0 iff mathematically equal (for same-typed canonical values).
//  ELEM by integer value; TUPLE/SET by number of items first, then lexicographically by items;
//  different kinds (never happens for same-typed values) by kind.
inline int Compare(const Value& a, const Value& b) {
  if (a.kind != b.kind) {
    return a.kind < b.kind ? -1 : 1;
  }
  if (a.kind == Value::ELEM) {
    if (a.elem == b.elem) {
      return 0;
    }
    return a.elem < b.elem ? -1 : 1;
  }
  if (a.items.size() != b.items.size()) {
    return a.items.size() < b.items.size() ? -1 : 1;
  }
  for (size_t i = 0; i < a.items.size(); ++i) {
    const int c = Compare(a.items[i], b.items[i]);
    if (c != 0) {
      return c;
    }
  }
  return 0;
}

inline bool Equal(const Value& a, const Value& b) { return Compare(a, b) == 0; }

//! a and b could be values of one type: same kind, tuples of equal arity with same-shaped components,
//  sets whose elements (of both together) all have one shape. Decided by kinds and sizes only (never
//  looks at an int32). Used to answer "ill-typed" instead of garbage when the input is not well typed.
inline bool SameShape(const Value& a, const Value& b) {
  if (a.kind != b.kind) {
    return false;
  }
  if (a.kind == Value::ELEM) {
    return true;
  }
  if (a.kind == Value::TUPLE) {
    if (a.items.size() != b.items.size()) {
      return false;
    }
    for (size_t i = 0; i < a.items.size(); ++i) {
      if (!SameShape(a.items[i], b.items[i])) {
        return false;
      }
    }
    return true;
  }
  const Value* sample = !a.items.empty() ? &a.items[0] : (!b.items.empty() ? &b.items[0] : nullptr);
  for (const auto* s : { &a, &b }) {
    for (const auto& e : s->items) {
      if (!SameShape(*sample, e)) {
        return false;
      }
    }
  }
  return true;
}

inline Value MakeElem(int32_t v) {
  Value r;
  r.kind = Value::ELEM;
  r.elem = v;
  return r;
}

inline Value EmptySet() { return Value{}; }

//! Tuple of the components. A tuple with ONE component is that component (so that pr1, Pr1 and
//  one-index filters yield the component itself, which is what projection onto one axis means).
//  Precondition: !components.empty().
inline Value MakeTuple(std::vector<Value> components) {
  if (components.size() == 1) {
    return std::move(components[0]);
  }
  Value r;
  r.kind = Value::TUPLE;
  r.items = std::move(components);
  return r;
}

//! Insert x into canonical set s (no-op if already present).
inline void Insert(Value& s, Value x) {
  size_t pos = 0;
  for (; pos < s.items.size(); ++pos) {
    const int c = Compare(x, s.items[pos]);
    if (c == 0) {
      return;
    }
    if (c < 0) {
      break;
    }
  }
  s.items.insert(s.items.begin() + static_cast<std::ptrdiff_t>(pos), std::move(x));
}

//! The set { e | e in elems } in canonical form.
inline Value MakeSet(std::vector<Value> elems) {
  Value r;
  for (auto& e : elems) {
    Insert(r, std::move(e));
  }
  return r;
}

inline Value Singleton(Value x) {
  Value r;
  r.items.push_back(std::move(x));
  return r;
}

inline uint32_t Cardinality(const Value& s) { return static_cast<uint32_t>(s.items.size()); }

//! x in s
inline bool Contains(const Value& s, const Value& x) {
  for (const auto& e : s.items) {
    if (Equal(e, x)) {
      return true;
    }
  }
  return false;
}

//! a subseteq b
inline bool IsSubsetOrEq(const Value& a, const Value& b) {
  for (const auto& e : a.items) {
    if (!Contains(b, e)) {
      return false;
    }
  }
  return true;
}

inline Value Union(const Value& a, const Value& b) {
  Value r = a;
  for (const auto& e : b.items) {
    Insert(r, e);
  }
  return r;
}

inline Value Intersect(const Value& a, const Value& b) {
  Value r;
  for (const auto& e : a.items) {
    if (Contains(b, e)) {
      r.items.push_back(e);  // subsequence of a canonical sequence is canonical
    }
  }
  return r;
}

inline Value Diff(const Value& a, const Value& b) {
  Value r;
  for (const auto& e : a.items) {
    if (!Contains(b, e)) {
      r.items.push_back(e);
    }
  }
  return r;
}

inline Value SymDiff(const Value& a, const Value& b) { return Union(Diff(a, b), Diff(b, a)); }

//! Big union of a set of sets.
inline Value Reduce(const Value& s) {
  Value r;
  for (const auto& inner : s.items) {
    for (const auto& e : inner.items) {
      Insert(r, e);
    }
  }
  return r;
}

//! The only element of a singleton; nullopt if |s| != 1.
inline std::optional<Value> Debool(const Value& s) {
  if (s.items.size() != 1) {
    return std::nullopt;
  }
  return s.items[0];
}

//! Components idx[0], idx[1], ... (1-based) of tuple t, as a tuple (see MakeTuple for one index).
//  nullopt if t is not a tuple or an index is out of range (ill-typed input).
inline std::optional<Value> TupleProjection(const Value& t, const std::vector<int16_t>& idx) {
  if (t.kind != Value::TUPLE || idx.empty()) {
    return std::nullopt;
  }
  std::vector<Value> comps;
  for (const auto i : idx) {
    if (i < 1 || static_cast<size_t>(i) > t.items.size()) {
      return std::nullopt;
    }
    comps.push_back(t.items[static_cast<size_t>(i) - 1]);
  }
  return MakeTuple(std::move(comps));
}

//! { TupleProjection(t, idx) | t in s }
inline std::optional<Value> Projection(const Value& s, const std::vector<int16_t>& idx) {
  Value r;
  for (const auto& t : s.items) {
    auto p = TupleProjection(t, idx);
    if (!p.has_value()) {
      return std::nullopt;
    }
    Insert(r, std::move(p.value()));
  }
  return r;
}

//! Set of all subsets of s; nullopt if it would have more than `limit` elements.
inline std::optional<Value> Powerset(const Value& s, uint32_t limit) {
  const size_t n = s.items.size();
  if (n >= 31 || (uint64_t{ 1 } << n) > uint64_t{ limit }) {
    return std::nullopt;
  }
  Value r;
  const uint32_t count = uint32_t{ 1 } << n;
  for (uint32_t mask = 0; mask < count; ++mask) {
    Value sub;
    for (size_t i = 0; i < n; ++i) {
      if ((mask >> i) & 1U) {
        sub.items.push_back(s.items[i]);  // subsequence of canonical sequence is canonical
      }
    }
    Insert(r, std::move(sub));
  }
  return r;
}

//! f[0] x f[1] x ... (n-ary product: set of n-tuples); nullopt if larger than `limit`.
//  Precondition: f.size() >= 2.
inline std::optional<Value> Product(const std::vector<Value>& f, uint32_t limit) {
  for (const auto& s : f) {
    if (s.items.empty()) {
      return Value{};  // a product with an empty factor is empty
    }
  }
  uint64_t total = 1;
  for (const auto& s : f) {
    total *= static_cast<uint64_t>(s.items.size());  // each factor and the running total are
    if (total > uint64_t{ limit }) {                 // <= 2^32, so the product fits in 64 bits
      return std::nullopt;
    }
  }
  std::vector<std::vector<Value>> rows{ {} };  // all prefixes built so far
  for (const auto& s : f) {
    std::vector<std::vector<Value>> next;
    for (const auto& row : rows) {
      for (const auto& e : s.items) {
        auto ext = row;
        ext.push_back(e);
        next.push_back(std::move(ext));
      }
    }
    rows = std::move(next);
  }
  Value r;
  if (f.empty()) {
    return r;
  }
  for (auto& row : rows) {
    Insert(r, MakeTuple(std::move(row)));
  }
  return r;
}

} // namespace ref
