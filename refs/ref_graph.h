// Reference directed graph over a universe of at most 8 vertices (bit matrices + Warshall).
// Independent of /repo.  Vertex k of the universe corresponds to EntityUID (UID0 + k).
#pragma once
#include <stdint.h>
namespace ref {
struct Graph {
  static const int U = 8;
  bool live[U] = {false};
  bool edge[U][U] = {{false}};   // edge[s][d]
  void Clear() { for (int i = 0; i < U; ++i) { live[i] = false; for (int j = 0; j < U; ++j) edge[i][j] = false; } }
  void AddItem(int v) { live[v] = true; }
  void EraseItem(int v) {
    if (!live[v]) return;
    live[v] = false;
    for (int i = 0; i < U; ++i) { edge[v][i] = false; edge[i][v] = false; }
  }
  void AddConnection(int s, int d) { live[s] = true; live[d] = true; edge[s][d] = true; }
  void SetItemInputs(int v, unsigned mask) {
    live[v] = true;
    for (int i = 0; i < U; ++i) edge[i][v] = false;
    for (int i = 0; i < U; ++i) if (mask & (1u << i)) { live[i] = true; edge[i][v] = true; }
  }
  int ItemsCount() const { int n = 0; for (int i = 0; i < U; ++i) n += live[i]; return n; }
  int ConnectionsCount() const { int n = 0; for (int i = 0; i < U; ++i) for (int j = 0; j < U; ++j) n += edge[i][j]; return n; }
  unsigned Inputs(int v) const { unsigned m = 0; for (int i = 0; i < U; ++i) if (edge[i][v]) m |= 1u << i; return m; }
  // reach[i][j]: there is a path of length >= 1 from i to j
  void Closure(bool reach[U][U]) const {
    for (int i = 0; i < U; ++i) for (int j = 0; j < U; ++j) reach[i][j] = edge[i][j];
    for (int k = 0; k < U; ++k) for (int i = 0; i < U; ++i) if (reach[i][k]) for (int j = 0; j < U; ++j) if (reach[k][j]) reach[i][j] = true;
  }
  // reflexive-transitive closure of the live members of mask, forwards
  unsigned ExpandOutputs(unsigned mask) const {
    bool r[U][U]; Closure(r);
    unsigned out = 0;
    for (int i = 0; i < U; ++i) if ((mask & (1u << i)) && live[i]) { out |= 1u << i; for (int j = 0; j < U; ++j) if (r[i][j]) out |= 1u << j; }
    return out;
  }
  unsigned ExpandInputs(unsigned mask) const {
    bool r[U][U]; Closure(r);
    unsigned out = 0;
    for (int i = 0; i < U; ++i) if ((mask & (1u << i)) && live[i]) { out |= 1u << i; for (int j = 0; j < U; ++j) if (r[j][i]) out |= 1u << j; }
    return out;
  }
  bool HasLoop() const { bool r[U][U]; Closure(r); for (int i = 0; i < U; ++i) if (r[i][i]) return true; return false; }
  // strongly connected component of v if v lies on a cycle, else 0
  unsigned CyclicComponent(int v) const {
    bool r[U][U]; Closure(r);
    if (!r[v][v]) return 0;
    unsigned m = 0;
    for (int j = 0; j < U; ++j) if (r[v][j] && r[j][v]) m |= 1u << j;
    return m;
  }
};
}  // namespace ref
