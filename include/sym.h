// Harness API.  The same harness source is compiled (a) to bitcode, where these functions are
// intrinsics of the symbolic executor cxsym, and (b) natively (with rt/sym_native.cpp), where they
// replay the recorded values of a counterexample.
#pragma once
#include <stddef.h>
#include <stdint.h>
#ifdef __cplusplus
extern "C" {
#endif
void sym_bytes(void* p, size_t n, const char* name);
int32_t sym_i32(const char* name);
int64_t sym_i64(const char* name);
uint8_t sym_u8(const char* name);
uint16_t sym_u16(const char* name);
bool sym_bool(const char* name);
int32_t sym_range(int32_t lo, int32_t hi, const char* name);   // symbolic value with lo <= x <= hi assumed
void sym_assume(bool c);
void sym_assert(bool c, const char* tag);
void sym_reach(const char* label);
void sym_observe_i64(const char* tag, int64_t v);
void sym_observe_str(const char* tag, const void* p, size_t n);
int32_t sym_concretize_i32(int32_t v);     // fork over every feasible value
int64_t sym_concretize_i64(int64_t v);
void sym_concretize_bytes(void* p, size_t n);
int sym_is_replay(void);
void sym_end_path(void);
void sym_note(const char* msg);
void harness_main(void);
#ifdef __cplusplus
}
#endif
