// cxsym — Part 2: solver access, OS-level forking of path states, failure records.
#pragma once
#include "core.h"

static std::string PATHID;
static bool ownsSlot = true, isRoot = true;
static uint64_t pathInstr = 0;
static bool CONCRETE_MODE = false;

struct Input { std::string name; std::string kind; unsigned w; std::vector<Val> vals; };
static std::vector<Input> INPUTS;

struct FrameInfo;  // fwd
static std::string stackString(unsigned maxFrames);
static std::string innermostRepoFrame();

// ---------------------------------------------------------------------------------- model eval
static bool modelBool(Z3_model m, Z3_ast a) {
  Z3_ast r = nullptr;
  if (!Z3_model_eval(Z, m, a, true, &r)) return false;
  Z3_decl_kind dk = Z3_get_decl_kind(Z, Z3_get_app_decl(Z, Z3_to_app(Z, r)));
  return dk == Z3_OP_TRUE;
}
static uint64_t modelBV(Z3_model m, Z3_ast a) {
  Z3_ast r = nullptr;
  if (!Z3_model_eval(Z, m, a, true, &r)) return 0;
  uint64_t u = 0;
  if (Z3_get_ast_kind(Z, r) == Z3_NUMERAL_AST) Z3_get_numeral_uint64(Z, r, &u);
  return u;
}
static uint64_t modelVal(Z3_model m, const Val& v) {
  if (!v.s) return v.c;
  if (v.w == 1) return modelBool(m, SYM[v.s]) ? 1 : 0;
  return modelBV(m, SYM[v.s]);
}
static void setModel(Z3_model m) {
  if (MODEL) Z3_model_dec_ref(Z, MODEL);
  MODEL = m;
}

// ---------------------------------------------------------------------------------- queries
enum Res { R_UNSAT, R_SAT, R_UNKNOWN };
static Res solveFallback(Z3_ast extra, Z3_model* outModel);
[[noreturn]] static void endProcess(int code);

static Res solve(Z3_ast extra, Z3_model* outModel) {
  double t0 = nowS();
  if (t0 - T0 > OPT.wallCap) { SH->budgetHit++; SH->stop = 1; endProcess(0); }
  Z3_solver_push(Z, SOLVER);
  Z3_solver_assert(Z, SOLVER, extra);
  Z3_lbool r = Z3_solver_check(Z, SOLVER);
  Res res = r == Z3_L_TRUE ? R_SAT : (r == Z3_L_FALSE ? R_UNSAT : R_UNKNOWN);
  if (res == R_SAT && outModel) {
    *outModel = Z3_solver_get_model(Z, SOLVER);
    Z3_model_inc_ref(Z, *outModel);
  }
  Z3_solver_pop(Z, SOLVER, 1);
  if (res == R_UNKNOWN) res = solveFallback(extra, outModel);
  SH->queries++;
  (res == R_SAT ? SH->qSat : res == R_UNSAT ? SH->qUnsat : SH->qUnknown)++;
  SH->solverNs += (uint64_t)((nowS() - t0) * 1e9);
  return res;
}

// second and third opinion for a query the incremental core gave up on:
// (a) fresh tactic-based QF_BV solver with 10x the budget, (b) cvc5 with the integer encoding of
// bit-vector arithmetic (decides div/mul-by-constant digit kernels that bit-blasting does not).
static Res solveFallback(Z3_ast extra, Z3_model* outModel) {
  Z3_tactic t = Z3_mk_tactic(Z, "qfbv");
  Z3_tactic_inc_ref(Z, t);
  Z3_solver s2 = Z3_mk_solver_from_tactic(Z, t);
  Z3_solver_inc_ref(Z, s2);
  Z3_params p = Z3_mk_params(Z);
  Z3_params_inc_ref(Z, p);
  Z3_params_set_uint(Z, p, Z3_mk_string_symbol(Z, "rlimit"), OPT.rlimit * 5);
  Z3_solver_set_params(Z, s2, p);
  for (Z3_ast a : PC) Z3_solver_assert(Z, s2, a);
  Z3_solver_assert(Z, s2, extra);
  Z3_lbool r = Z3_solver_check(Z, s2);
  Res res = r == Z3_L_TRUE ? R_SAT : (r == Z3_L_FALSE ? R_UNSAT : R_UNKNOWN);
  if (res == R_SAT && outModel) {
    *outModel = Z3_solver_get_model(Z, s2);
    Z3_model_inc_ref(Z, *outModel);
  }
  if (res == R_UNKNOWN && OPT.cvc5Ms) {
    // export and ask cvc5 (only an `unsat` answer is used; anything else stays unknown)
    std::string f = OPT.out + "/q_" + std::to_string(getpid()) + ".smt2";
    FILE* fp = fopen(f.c_str(), "w");
    if (fp) {
      fprintf(fp, "(set-logic QF_BV)\n%s\n(check-sat)\n", Z3_solver_to_string(Z, s2));
      fclose(fp);
      std::string cmd = "cvc5 --solve-bv-as-int=sum --tlimit=" + std::to_string(OPT.cvc5Ms) + " " + f + " 2>&1";
      FILE* pp = popen(cmd.c_str(), "r");
      if (pp) {
        char buf[256]; std::string outp;
        while (fgets(buf, sizeof buf, pp)) outp += buf;
        pclose(pp);
        if (outp.find("(error") == std::string::npos && outp.rfind("unsat", 0) == 0) res = R_UNSAT;
      }
      unlink(f.c_str());
    }
  }
  Z3_params_dec_ref(Z, p);
  Z3_solver_dec_ref(Z, s2);
  Z3_tactic_dec_ref(Z, t);
  return res;
}

static std::unordered_map<Z3_ast, bool> KNOWN;

static void addPC(Z3_ast a) {
  keep(a);
  PC.push_back(a);
  Z3_solver_assert(Z, SOLVER, a);
}

// ---------------------------------------------------------------------------------- process exit
[[noreturn]] static void endProcess(int code) {
  fflush(stdout); fflush(stderr);
  SH->instr += pathInstr;
  uint64_t m = SH->maxPathInstr.load();
  while (pathInstr > m && !SH->maxPathInstr.compare_exchange_weak(m, pathInstr)) {}
  if (!isRoot) {
    if (ownsSlot) sem_post(&SH->slots);
    _exit(code);
  }
  // root: give the slot away and reap every descendant (we are the sub-reaper)
  sem_post(&SH->slots);
  for (;;) {
    int st = 0;
    pid_t p = wait(&st);
    if (p < 0) { if (errno == ECHILD) break; if (errno == EINTR) continue; break; }
    if (WIFSIGNALED(st) || (WIFEXITED(st) && WEXITSTATUS(st) >= 64)) { SH->errorsFatal++; sem_post(&SH->slots); }
  }
  throw 0;  // unwinds to main() of the root, which writes the result file
}

static void crashHandler(int sig) {
  char buf[256];
  int n = snprintf(buf, sizeof buf, "cxsym: engine crashed with signal %d on path %s\n", sig, PATHID.c_str());
  if (write(2, buf, n)) {}
  SH->errorsFatal++;
  if (!isRoot && ownsSlot) sem_post(&SH->slots);
  _exit(70);
}

// returns true in the process that explores the *other* side
static bool forkHere() {
  SH->forks++;
  fflush(stdout); fflush(stderr);
  bool gotSlot = sem_trywait(&SH->slots) == 0;
  pid_t pid = fork();
  if (pid < 0) {
    // cannot fork: wait a little and retry sequentially
    perror("fork");
    SH->errorsFatal++;
    endProcess(71);
  }
  if (pid == 0) {
    isRoot = false;
    ownsSlot = gotSlot;
    PATHID += '1';
    SH->procs++;
    pathInstr = 0;  // counted by the parent up to here
    return true;
  }
  if (!gotSlot) {
    int st = 0;
    while (waitpid(pid, &st, 0) < 0 && errno == EINTR) {}
    if (WIFSIGNALED(st) || (WIFEXITED(st) && WEXITSTATUS(st) >= 64)) SH->errorsFatal++;
  }
  PATHID += '0';
  return false;
}

// ---------------------------------------------------------------------------------- failures
static std::string jsonEsc(const std::string& s) {
  std::string o;
  for (unsigned char ch : s) {
    if (ch == '"' || ch == '\\') { o += '\\'; o += (char)ch; }
    else if (ch < 0x20 || ch >= 0x7f) { char b[8]; snprintf(b, sizeof b, "\\u%04x", ch); o += b; }
    else o += (char)ch;
  }
  return o;
}
static uint64_t fnv(const std::string& s) {
  uint64_t h = 1469598103934665603ULL;
  for (unsigned char c : s) { h ^= c; h *= 1099511628211ULL; }
  return h ? h : 1;
}
static std::string inputsJson(Z3_model m) {
  std::string o = "[";
  for (size_t i = 0; i < INPUTS.size(); ++i) {
    const Input& in = INPUTS[i];
    if (i) o += ",";
    o += "{\"name\":\"" + jsonEsc(in.name) + "\",\"kind\":\"" + in.kind + "\",\"w\":" + std::to_string(in.w) + ",\"values\":[";
    for (size_t j = 0; j < in.vals.size(); ++j) {
      if (j) o += ",";
      o += std::to_string(modelVal(m, in.vals[j]));
    }
    o += "]}";
  }
  return o + "]";
}
static uint32_t sigCount(const std::string& sig) {
  uint64_t h = fnv(sig);
  for (unsigned i = 0; i < 2048; ++i) {
    SigSlot& sl = SH->sigs[(h + i) % 2048];
    uint64_t cur = sl.h.load();
    if (cur == 0) { uint64_t z = 0; if (sl.h.compare_exchange_strong(z, h)) cur = h; else cur = z; }
    if (cur == h) return sl.count.fetch_add(1) + 1;
  }
  return 1000000;
}
static unsigned failSeq = 0;
// kind: assert | oob | null-deref | use-after-free | bad-free | div-zero | overflow | shift | unreachable |
//       terminate | abort | escaped-exception | pure-virtual | write-const
static void reportFailure(const std::string& kind, const std::string& tag, const std::string& detail, Z3_model m) {
  SH->failures++;
  if (!OPT.stopTag.empty() && tag == OPT.stopTag) SH->stop = 1;
  std::string where = innermostRepoFrame();
  std::string sig = kind + ":" + tag + "@" + where;
  uint32_t n = sigCount(sig);
  if (n > OPT.maxPerSig) return;
  std::string f = OPT.out + "/fail_" + std::to_string(fnv(PATHID) % 100000000ULL) + "_" + std::to_string(getpid()) + "_" + std::to_string(failSeq++) + ".json";
  FILE* fp = fopen(f.c_str(), "w");
  if (!fp) return;
  fprintf(fp, "{\"kind\":\"%s\",\"tag\":\"%s\",\"where\":\"%s\",\"sig\":\"%s\",\"detail\":\"%s\",\"path\":\"%s\",\n \"stack\":\"%s\",\n \"inputs\":%s}\n",
          jsonEsc(kind).c_str(), jsonEsc(tag).c_str(), jsonEsc(where).c_str(), jsonEsc(sig).c_str(), jsonEsc(detail).c_str(),
          PATHID.c_str(), jsonEsc(stackString(14)).c_str(), inputsJson(m ? m : MODEL).c_str());
  fclose(fp);
  if (OPT.verbose) fprintf(stderr, "FAIL %s [%s] %s\n", sig.c_str(), PATHID.c_str(), detail.c_str());
}
[[noreturn]] static void fatalFailure(const std::string& kind, const std::string& tag, const std::string& detail, Z3_model m = nullptr) {
  reportFailure(kind, tag, detail, m);
  SH->paths++;  // the path ended (in a fault)
  endProcess(0);
}
[[noreturn]] static void unsupported(const std::string& what) {
  SH->unsupported++;
  std::string sig = "unsupported:" + what;
  if (sigCount(sig) <= 2) {
    std::string f = OPT.out + "/unsupported_" + std::to_string(getpid()) + ".txt";
    FILE* fp = fopen(f.c_str(), "w");
    if (fp) { fprintf(fp, "%s\npath %s\n%s\n", what.c_str(), PATHID.c_str(), stackString(20).c_str()); fclose(fp); }
    fprintf(stderr, "cxsym: UNSUPPORTED %s\n", what.c_str());
  }
  endProcess(0);
}

// ---------------------------------------------------------------------------------- branching
static bool isNot(Z3_ast a, Z3_ast* inner) {
  if (Z3_get_ast_kind(Z, a) != Z3_APP_AST) return false;
  Z3_app app = Z3_to_app(Z, a);
  if (Z3_get_decl_kind(Z, Z3_get_app_decl(Z, app)) != Z3_OP_NOT) return false;
  *inner = Z3_get_app_arg(Z, app, 0);
  return true;
}
static bool decideAst(Z3_ast a);
static bool decide(const Val& c) {
  if (!c.s) return c.c & 1;
  return decideAst(SYM[c.s]);
}
static bool decideAst(Z3_ast a) {
  Z3_ast inner;
  if (isNot(a, &inner)) return !decideAst(inner);
  auto it = KNOWN.find(a);
  if (it != KNOWN.end()) return it->second;
  bool mv = modelBool(MODEL, a);
  Z3_ast na = Z3_mk_not(Z, a);
  Z3_ast other = mv ? na : a;
  Z3_model m2 = nullptr;
  Res r = solve(other, &m2);
  if (r == R_UNSAT) { KNOWN[a] = mv; return mv; }
  if (r == R_UNKNOWN) {
    SH->inconclusive++;
    addPC(mv ? a : na);
    KNOWN[a] = mv;
    return mv;
  }
  if (SH->stop.load()) endProcess(0);
  if (nowS() - T0 > OPT.wallCap) { SH->budgetHit++; SH->stop = 1; endProcess(0); }
  if (SH->paths.load() + SH->forks.load() / 2 > OPT.maxPaths) { SH->budgetHit++; endProcess(0); }
  if (forkHere()) {
    setModel(m2);
    addPC(other);
    KNOWN[a] = !mv;
    return !mv;
  }
  Z3_model_dec_ref(Z, m2);
  addPC(mv ? a : na);
  KNOWN[a] = mv;
  return mv;
}

// add an assumption; ends the path silently if it is infeasible
static void assume(const Val& c) {
  if (!c.s) {
    if (!(c.c & 1)) { SH->pruned++; endProcess(0); }
    return;
  }
  Z3_ast a = SYM[c.s];
  if (!modelBool(MODEL, a)) {
    Z3_model m2 = nullptr;
    Res r = solve(a, &m2);
    if (r == R_UNSAT) { SH->pruned++; endProcess(0); }
    if (r == R_UNKNOWN) { SH->inconclusive++; SH->pruned++; endProcess(0); }
    setModel(m2);
  }
  addPC(a);
  KNOWN[a] = true;
}

// fork over all feasible values of v; returns the value of this process
static uint64_t concretize(const Val& v) {
  if (!v.s) return v.c;
  for (;;) {
    uint64_t mv = modelVal(MODEL, v);
    Z3_ast eq = v.w == 1 ? (mv ? SYM[v.s] : Z3_mk_not(Z, SYM[v.s])) : Z3_mk_eq(Z, SYM[v.s], numAst(mv, v.w));
    Val c = S(eq, 1);
    if (decide(c)) return mv;
  }
}

// all feasible values of v (no forking), up to cap; returns false if more than cap
static bool enumerate(const Val& v, unsigned cap, std::vector<uint64_t>& out) {
  out.clear();
  if (!v.s) { out.push_back(v.c); return true; }
  Z3_solver_push(Z, SOLVER);
  bool ok = true;
  uint64_t first = modelVal(MODEL, v);
  out.push_back(first);
  Z3_solver_assert(Z, SOLVER, Z3_mk_not(Z, Z3_mk_eq(Z, SYM[v.s], numAst(first, v.w))));
  for (;;) {
    double t0 = nowS();
    Z3_lbool r = Z3_solver_check(Z, SOLVER);
    SH->queries++;
    SH->solverNs += (uint64_t)((nowS() - t0) * 1e9);
    if (r == Z3_L_FALSE) { SH->qUnsat++; break; }
    if (r != Z3_L_TRUE) { SH->qUnknown++; SH->inconclusive++; ok = false; break; }
    SH->qSat++;
    if (out.size() >= cap) { ok = false; break; }
    Z3_model m = Z3_solver_get_model(Z, SOLVER);
    Z3_model_inc_ref(Z, m);
    uint64_t x = modelVal(m, v);
    Z3_model_dec_ref(Z, m);
    out.push_back(x);
    Z3_solver_assert(Z, SOLVER, Z3_mk_not(Z, Z3_mk_eq(Z, SYM[v.s], numAst(x, v.w))));
  }
  Z3_solver_pop(Z, SOLVER, 1);
  return ok;
}

// can `bad` hold on this path?  If yes: record a failure with that model (non fatal) and continue
// under the assumption that it does not hold.
static void checkNever(Z3_ast bad, const char* kind, const std::string& tag, const std::string& detail) {
  Z3_ast good = Z3_mk_not(Z, bad);
  auto it = KNOWN.find(good);
  if (it != KNOWN.end() && it->second) return;
  Z3_model m2 = nullptr;
  Res r;
  if (modelBool(MODEL, bad)) { r = R_SAT; m2 = MODEL; Z3_model_inc_ref(Z, m2); }
  else r = solve(bad, &m2);
  if (r == R_UNSAT) { KNOWN[good] = true; return; }
  if (r == R_UNKNOWN) { SH->inconclusive++; addPC(good); KNOWN[good] = true; return; }
  reportFailure(kind, tag, detail, m2);
  Z3_model_dec_ref(Z, m2);
  Val g = S(good, 1);
  assume(g);
}
