// cxsym — bounded symbolic executor over LLVM-14 IR.  Part 1: values, solver access, memory.
#pragma once
#include <llvm/IR/Module.h>
#include <llvm/IR/Function.h>
#include <llvm/IR/Instructions.h>
#include <llvm/IR/IntrinsicInst.h>
#include <llvm/IR/Constants.h>
#include <llvm/IR/DataLayout.h>
#include <llvm/IR/LLVMContext.h>
#include <llvm/IR/GetElementPtrTypeIterator.h>
#include <llvm/IR/Operator.h>
#include <llvm/IRReader/IRReader.h>
#include <llvm/Support/SourceMgr.h>
#include <llvm/Support/raw_ostream.h>
#include <llvm/Demangle/Demangle.h>
#include <z3.h>

#include <atomic>
#include <cassert>
#include <cerrno>
#include <cmath>
#include <cstdarg>
#include <cstdint>
#include <cstdio>
#include <cstdlib>
#include <cstring>
#include <map>
#include <string>
#include <unordered_map>
#include <unordered_set>
#include <vector>
#include <semaphore.h>
#include <signal.h>
#include <sys/mman.h>
#include <sys/prctl.h>
#include <sys/wait.h>
#include <time.h>
#include <unistd.h>

using namespace llvm;

// ------------------------------------------------------------------------------------------
// options
// ------------------------------------------------------------------------------------------
struct Options {
  std::string bc, entry = "harness_main", out = ".";
  std::string replay;        // concrete mode: inputs come from this file
  unsigned jobs = 16;
  uint64_t maxInstrPath = 200000000ULL;
  uint64_t maxPaths = 2000000;
  double wallCap = 3600;
  unsigned rlimit = 4000000;    // z3 resource limit per query (deterministic; no timer threads)
  unsigned cvc5Ms = 20000;      // time limit of the cvc5 fallback (0 = off)
  unsigned ptrCap = 64;         // feasible values of a symbolic pointer before giving up
  bool checkOverflow = true;
  bool verbose = false;
  unsigned maxPerSig = 3;
  unsigned samples = 8;
  std::string stopTag;          // stop the whole exploration once a failure with this tag was recorded (witness runs)
} OPT;

static double nowS() {
  timespec ts; clock_gettime(CLOCK_MONOTONIC, &ts);
  return ts.tv_sec + ts.tv_nsec * 1e-9;
}
static double T0;

// ------------------------------------------------------------------------------------------
// state shared between all forked path processes
// ------------------------------------------------------------------------------------------
struct SigSlot { std::atomic<uint64_t> h; std::atomic<uint32_t> count; };
struct ReachSlot { std::atomic<uint64_t> h; char name[56]; std::atomic<uint64_t> count; };
struct Shared {
  sem_t slots;
  std::atomic<uint64_t> paths, pruned, forks, queries, qSat, qUnsat, qUnknown, solverNs, instr,
      failures, obligations, obligationsSolver, budgetHit, unsupported, procs, samples, maxPathInstr,
      inconclusive, ovfCandidates, errorsFatal, stop;
  SigSlot sigs[2048];
  ReachSlot reach[512];
  std::atomic<uint8_t> funcHit[16384];
};
static Shared* SH;

// ------------------------------------------------------------------------------------------
// values
// ------------------------------------------------------------------------------------------
enum : uint8_t { K_INT = 0, K_FP = 1, K_AGG = 2 };
struct Val {
  uint64_t c = 0;   // concrete bits (K_INT/K_FP) ; ignored if s != 0
  uint32_t s = 0;   // != 0: index into SYM (K_INT) or into AGGS (K_AGG)
  uint16_t w = 0;   // bit width
  uint8_t k = K_INT;
  uint8_t poison = 0;
  bool sym() const { return k == K_INT && s != 0; }
};
static inline uint64_t maskW(unsigned w) { return w >= 64 ? ~0ULL : ((1ULL << w) - 1); }
static inline Val mkInt(uint64_t c, unsigned w) { Val v; v.c = c & maskW(w); v.w = (uint16_t)w; return v; }
static inline Val mkPtr(uint64_t c) { return mkInt(c, 64); }
static inline int64_t sextW(uint64_t c, unsigned w) {
  if (w >= 64) return (int64_t)c;
  uint64_t m = 1ULL << (w - 1);
  c &= maskW(w);
  return (int64_t)((c ^ m) - m);
}

static Z3_context Z;
static Z3_solver SOLVER;
static Z3_model MODEL = nullptr;
static std::vector<Z3_ast> SYM(1, nullptr);
static std::vector<std::vector<Val>> AGGS(1);
static std::vector<Z3_ast> PC;       // path condition (as asserted)
static Z3_sort BVS[130];
static Z3_sort BOOLS;

static Z3_sort bvs(unsigned w) {
  if (w < 130 && BVS[w]) return BVS[w];
  Z3_sort s = Z3_mk_bv_sort(Z, w);
  if (w < 130) BVS[w] = s;
  return s;
}
static Z3_ast keep(Z3_ast a) { Z3_inc_ref(Z, a); return a; }
static Z3_ast numAst(uint64_t v, unsigned w) {
  if (w == 1) return (v & 1) ? Z3_mk_true(Z) : Z3_mk_false(Z);
  return Z3_mk_unsigned_int64(Z, v & maskW(w), bvs(w));
}
static Z3_ast A(const Val& v) {
  if (v.s) return SYM[v.s];
  return numAst(v.c, v.w);
}
// a symbolic value from an ast; numerals collapse to concrete values
static Val S(Z3_ast a, unsigned w) {
  Z3_ast_kind kd = Z3_get_ast_kind(Z, a);
  if (kd == Z3_NUMERAL_AST) {
    uint64_t u = 0;
    if (Z3_get_numeral_uint64(Z, a, &u)) return mkInt(u, w);
  } else if (kd == Z3_APP_AST && w == 1) {
    Z3_decl_kind dk = Z3_get_decl_kind(Z, Z3_get_app_decl(Z, Z3_to_app(Z, a)));
    if (dk == Z3_OP_TRUE) return mkInt(1, 1);
    if (dk == Z3_OP_FALSE) return mkInt(0, 1);
  }
  keep(a);
  SYM.push_back(a);
  Val v; v.s = (uint32_t)(SYM.size() - 1); v.w = (uint16_t)w;
  return v;
}
// bool ast <-> bv1 helpers: width-1 values are kept as Bool-sorted asts
static Z3_ast boolToBv(Z3_ast b, unsigned w) { return Z3_mk_ite(Z, b, numAst(1, w == 1 ? 8 : w), numAst(0, w == 1 ? 8 : w)); }

// ------------------------------------------------------------------------------------------
// memory: one flat arena; interpreted addresses are host addresses inside it
// ------------------------------------------------------------------------------------------
static const uint64_t ABASE = 0x200000000000ULL;
static const uint64_t ASIZE = 32ULL << 30;
static const uint64_t FBASE = 0x10000ULL;  // fake addresses of functions: FBASE + 16*i
static uint32_t* SHADOW;
static uint64_t BUMP = ABASE + 4096;

struct SymByte { uint32_t parent; uint16_t idx; };
typedef std::map<uint32_t, SymByte> SymMap;
enum : uint8_t { O_GLOBAL = 1, O_STACK = 2, O_HEAP = 3 };
struct Obj {
  uint64_t base = 0, size = 0;
  uint8_t kind = 0;
  bool freed = false, ro = false;
  SymMap* sym = nullptr;
  const char* name = nullptr;
};
static std::vector<Obj> OBJS(1);

static void initArena() {
  void* p = mmap((void*)ABASE, ASIZE, PROT_READ | PROT_WRITE, MAP_PRIVATE | MAP_ANONYMOUS | MAP_NORESERVE | MAP_FIXED_NOREPLACE, -1, 0);
  if (p != (void*)ABASE) { perror("mmap arena"); exit(3); }
  void* q = mmap(nullptr, ASIZE / 16 * 4, PROT_READ | PROT_WRITE, MAP_PRIVATE | MAP_ANONYMOUS | MAP_NORESERVE, -1, 0);
  if (q == MAP_FAILED) { perror("mmap shadow"); exit(3); }
  SHADOW = (uint32_t*)q;
}
static uint64_t allocObj(uint64_t size, uint8_t kind, const char* name = nullptr, uint64_t align = 16) {
  if (align < 16) align = 16;
  uint64_t base = (BUMP + align - 1) & ~(align - 1);
  uint64_t span = (size + 15) & ~15ULL;
  if (span == 0) span = 16;
  if (base + span + 16 > ABASE + ASIZE) { fprintf(stderr, "cxsym: arena exhausted\n"); SH->budgetHit++; _exit(0); }
  BUMP = base + span + 16;  // 16-byte red zone
  Obj o; o.base = base; o.size = size; o.kind = kind; o.name = name;
  OBJS.push_back(o);
  uint32_t id = (uint32_t)(OBJS.size() - 1);
  uint64_t g0 = (base - ABASE) >> 4, g1 = (base + span - ABASE) >> 4;
  for (uint64_t g = g0; g < g1; ++g) SHADOW[g] = id;
  return base;
}
static inline Obj* objAt(uint64_t addr) {
  if (addr < ABASE || addr >= BUMP) return nullptr;
  uint32_t id = SHADOW[(addr - ABASE) >> 4];
  return id ? &OBJS[id] : nullptr;
}
