// cxsym — Part 4: frames, calls, exceptions, externals, the interpreter loop.
#pragma once
#include "interp.h"
#include <map>
#include <list>
#include <unordered_map>
#include <functional>

static inline Val getOp(const Frame& fr, const Opnd& o) { return o.slot == NOSLOT ? o.cv : REGS[fr.regBase + o.slot]; }

static void pushFrame(CFunc* cf, std::vector<Val>& args) {
  if (!cf->decoded) decode(cf);
  if (STACK.size() > 60000) fatalFailure("stack-overflow", "", "more than 60000 frames");
  if (cf->idx < 16384) SH->funcHit[cf->idx].store(1, std::memory_order_relaxed);
  Frame fr; fr.f = cf; fr.regBase = REGS.size(); fr.pc = 0;
  unsigned np = cf->F->arg_size();
  REGS.resize(REGS.size() + cf->nslots);
  for (unsigned i = 0; i < np && i < args.size(); ++i) REGS[fr.regBase + i] = args[i];
  if (cf->F->isVarArg()) fr.varargs.assign(args.begin() + std::min<size_t>(np, args.size()), args.end());
  STACK.push_back(std::move(fr));
}
static void popFrame() {
  Frame& fr = STACK.back();
  for (uint32_t id : fr.allocas) OBJS[id].freed = true;
  REGS.resize(fr.regBase);
  STACK.pop_back();
}
static void takeEdge(Frame& fr, Succ& s) {
  if (!s.phis.empty()) {
    Val tmp[64]; std::vector<Val> big;
    size_t n = s.phis.size();
    Val* t = tmp;
    if (n > 64) { big.resize(n); t = big.data(); }
    for (size_t i = 0; i < n; ++i) t[i] = getOp(fr, s.phis[i].src);
    for (size_t i = 0; i < n; ++i) REGS[fr.regBase + s.phis[i].dst] = t[i];
  }
  fr.pc = s.pc;
}
static void finishCall(const Val& res) {
  Frame& fr = STACK.back();
  CInst& ci = fr.f->insts[fr.pc];
  if (ci.dst != NOSLOT) REGS[fr.regBase + ci.dst] = res;
  if (ci.op == Instruction::Invoke) takeEdge(fr, ci.succ[0]);
  else fr.pc++;
}

// ------------------------------------------------------------------------------------------
// typed memory access
// ------------------------------------------------------------------------------------------
static Val loadTyped(Type* t, uint64_t addr) {
  if (auto* st = dyn_cast<StructType>(t)) {
    const StructLayout* sl = DL->getStructLayout(st);
    std::vector<Val> items;
    for (unsigned i = 0; i < st->getNumElements(); ++i) items.push_back(loadTyped(st->getElementType(i), addr + sl->getElementOffset(i)));
    return mkAgg(std::move(items));
  }
  if (auto* at = dyn_cast<ArrayType>(t)) {
    uint64_t es = DL->getTypeAllocSize(at->getElementType());
    std::vector<Val> items;
    for (uint64_t i = 0; i < at->getNumElements(); ++i) items.push_back(loadTyped(at->getElementType(), addr + i * es));
    return mkAgg(std::move(items));
  }
  unsigned w = typeWidth(t);
  if (!w) unsupported("load of unsupported type");
  Val v = loadBytes(addr, (unsigned)DL->getTypeStoreSize(t), w);
  if (t->isFloatingPointTy()) {
    if (v.s) unsupported("symbolic floating point load");
    v.k = K_FP;
  }
  return v;
}
static void storeTyped(Type* t, uint64_t addr, const Val& v) {
  if (auto* st = dyn_cast<StructType>(t)) {
    const StructLayout* sl = DL->getStructLayout(st);
    std::vector<Val> items = AGGS[v.s];
    for (unsigned i = 0; i < st->getNumElements(); ++i) storeTyped(st->getElementType(i), addr + sl->getElementOffset(i), items[i]);
    return;
  }
  if (auto* at = dyn_cast<ArrayType>(t)) {
    uint64_t es = DL->getTypeAllocSize(at->getElementType());
    std::vector<Val> items = AGGS[v.s];
    for (uint64_t i = 0; i < at->getNumElements(); ++i) storeTyped(at->getElementType(), addr + i * es, items[i]);
    return;
  }
  Val x = v; x.k = K_INT;
  storeBytes(addr, x, (unsigned)DL->getTypeStoreSize(t));
}
static Val loadAt(const Val& p, Type* t) {
  if (!p.s) return loadTyped(t, p.c);
  std::vector<uint64_t> addrs;
  uint64_t n = DL->getTypeStoreSize(t);
  if (t->isStructTy() || t->isArrayTy() || t->isFloatingPointTy() || !enumerate(p, OPT.ptrCap, addrs)) return loadTyped(t, concretize(p));
  std::vector<std::pair<uint64_t, Val>> vals;
  for (uint64_t a : addrs) {
    Obj* o = objAt(a);
    if (!o || o->freed || a + n > o->base + o->size) {
      checkNever(Z3_mk_eq(Z, SYM[p.s], numAst(a, 64)), a < 4096 ? "null-deref" : (o && o->freed ? "use-after-free" : "oob"), "symbolic-address",
                 "read through a symbolic pointer can leave its object");
      continue;
    }
    vals.push_back({a, loadTyped(t, a)});
  }
  if (vals.empty()) { SH->pruned++; endProcess(0); }
  Z3_ast acc = A(vals.back().second);
  for (size_t i = vals.size() - 1; i-- > 0;) acc = Z3_mk_ite(Z, Z3_mk_eq(Z, SYM[p.s], numAst(vals[i].first, 64)), A(vals[i].second), acc);
  return S(acc, typeWidth(t));
}

// ------------------------------------------------------------------------------------------
// C++ exceptions (Itanium ABI, modelled)
// ------------------------------------------------------------------------------------------
struct ExnInfo { uint64_t typeinfo = 0, dtor = 0; int handlers = 0; bool rethrown = false; int64_t adjust = 0; };
static std::unordered_map<uint64_t, ExnInfo> EXN;
static std::vector<uint64_t> CAUGHT;
static uint64_t pendingExn = 0;
static int32_t pendingSel = 0;
static std::map<uint64_t, int32_t> TYPEIDS;
static uint64_t VT_CLASS = 0, VT_SI = 0, VT_VMI = 0;  // addresses of the abi type_info vtables (+16)

static int32_t typeIdFor(uint64_t ti) {
  auto it = TYPEIDS.find(ti);
  if (it != TYPEIDS.end()) return it->second;
  int32_t id = (int32_t)TYPEIDS.size() + 1;
  TYPEIDS[ti] = id;
  return id;
}
static uint64_t rd64(uint64_t a) {
  Obj* o = objAt(a);
  if (!o || a + 8 > o->base + o->size) return 0;
  uint64_t v; memcpy(&v, (void*)a, 8); return v;
}
static std::string typeName(uint64_t ti) {
  if (!ti) return "...";
  std::string nm = readCStr(rd64(ti + 8));
  if (!nm.empty() && nm[0] == '*') nm = nm.substr(1);
  std::string d = llvm::demangle("_ZTI" + nm);
  const char* pre = "typeinfo for ";
  if (d.rfind(pre, 0) == 0) d = d.substr(strlen(pre));
  return d;
}
static bool sameType(uint64_t a, uint64_t b) {
  if (a == b) return true;
  std::string x = readCStr(rd64(a + 8)), y = readCStr(rd64(b + 8));
  return !x.empty() && x[0] != '*' && x == y;
}
// is `target` the type `ti` or one of its (non-virtual) bases; offset of the base subobject
static bool findBase(uint64_t ti, uint64_t target, int64_t off, int64_t& outOff, int depth = 0) {
  if (sameType(ti, target)) { outOff = off; return true; }
  if (depth > 16) return false;
  uint64_t vt = rd64(ti);
  if (vt == VT_SI) return findBase(rd64(ti + 16), target, off, outOff, depth + 1);
  if (vt == VT_VMI) {
    uint32_t cnt; memcpy(&cnt, (void*)(ti + 20), 4);
    for (uint32_t i = 0; i < cnt && i < 16; ++i) {
      uint64_t base = rd64(ti + 24 + 16 * i);
      int64_t of = (int64_t)rd64(ti + 32 + 16 * i);
      if (of & 1) continue;  // virtual base: not modelled
      if (findBase(base, target, off + (of >> 8), outOff, depth + 1)) return true;
    }
  }
  return false;
}
static HR unwind(uint64_t exn) {
  ExnInfo& ei = EXN[exn];
  bool found = false;
  for (size_t i = STACK.size(); i-- > 0 && !found;) {
    Frame& f = STACK[i];
    CInst& ci = f.f->insts[f.pc];
    if (ci.op != Instruction::Invoke) continue;
    LandingPadInst* lp = cast<InvokeInst>(ci.I)->getLandingPadInst();
    for (unsigned c = 0; c < lp->getNumClauses() && !found; ++c) {
      if (lp->isCatch(c)) {
        uint64_t ti = constVal(lp->getClause(c)).c;
        int64_t off;
        if (!ti || findBase(ei.typeinfo, ti, 0, off)) found = true;
      } else found = true;  // filter clause: handled (leads to unexpected/terminate)
    }
  }
  if (!found) fatalFailure("escaped-exception", typeName(ei.typeinfo), "exception of type " + typeName(ei.typeinfo) + " is not caught by anything on the call stack");
  while (!STACK.empty()) {
    Frame& f = STACK.back();
    CInst& ci = f.f->insts[f.pc];
    if (ci.op == Instruction::Invoke) {
      LandingPadInst* lp = cast<InvokeInst>(ci.I)->getLandingPadInst();
      bool matched = false; int32_t sel = 0;
      for (unsigned c = 0; c < lp->getNumClauses() && !matched; ++c) {
        if (lp->isCatch(c)) {
          uint64_t ti = constVal(lp->getClause(c)).c;
          int64_t off = 0;
          if (!ti || findBase(ei.typeinfo, ti, 0, off)) { matched = true; sel = typeIdFor(ti); ei.adjust = off; }
        } else { matched = true; sel = -1; }
      }
      if (matched || lp->isCleanup()) {
        pendingExn = exn; pendingSel = sel;
        takeEdge(f, ci.succ[1]);
        return H_UNWIND;
      }
    }
    popFrame();
  }
  fatalFailure("escaped-exception", typeName(ei.typeinfo), "unwound the whole stack");
}

// ------------------------------------------------------------------------------------------
// externals implemented in the engine
// ------------------------------------------------------------------------------------------
static CFunc* rtFunc(const char* name) {
  Function* f = MOD->getFunction(name);
  if (!f || f->isDeclaration()) { fprintf(stderr, "cxsym: runtime model %s missing from the module\n", name); _exit(73); }
  return FMAP.at(f);
}
static uint64_t conc(const Val& v) { return concretize(v); }
static bool rangeConcrete(uint64_t p, uint64_t n) {
  if (!n) return true;
  Obj* o = objAt(p);
  if (!o || o->freed || p + n > o->base + o->size) return false;
  return !hasSym(o, p - o->base, n);
}
static uint64_t heapAlloc(uint64_t n, uint64_t align = 16) {
  if (n > (1ULL << 31)) fatalFailure("huge-allocation", "", "allocation of " + std::to_string(n) + " bytes");
  uint64_t a = allocObj(n, O_HEAP, nullptr, align);
  return a;
}
static void heapFree(uint64_t p, const char* who) {
  if (!p) return;
  Obj* o = objAt(p);
  if (!o || o->base != p || o->kind != O_HEAP) fatalFailure("bad-free", who, "free of a pointer that is not the start of a heap block");
  if (o->freed) fatalFailure("double-free", who, "block freed twice");
  o->freed = true;
  if (o->sym) { delete o->sym; o->sym = nullptr; }
}
#define HARGS CInst& in, std::vector<Val>& a, Val& res
static HR h_malloc(HARGS) { res = mkPtr(heapAlloc(conc(a[0]))); return H_DONE; }
static HR h_calloc(HARGS) { uint64_t n = conc(a[0]) * conc(a[1]); res = mkPtr(heapAlloc(n)); return H_DONE; }
static HR h_free(HARGS) { heapFree(conc(a[0]), "free"); return H_DONE; }
static HR h_realloc(HARGS) {
  uint64_t p = conc(a[0]), n = conc(a[1]);
  uint64_t q = heapAlloc(n);
  if (p) {
    Obj* o = objAt(p);
    if (!o || o->base != p || o->freed) fatalFailure("bad-free", "realloc", "realloc of invalid pointer");
    copyMem(q, p, std::min<uint64_t>(n, o->size));
    heapFree(p, "realloc");
  }
  res = mkPtr(q);
  return H_DONE;
}
static HR h_posix_memalign(HARGS) {
  uint64_t pp = conc(a[0]), al = conc(a[1]), n = conc(a[2]);
  storeBytes(pp, mkPtr(heapAlloc(n, al)), 8);
  res = mkInt(0, 32);
  return H_DONE;
}
static HR h_new_aligned(HARGS) { res = mkPtr(heapAlloc(conc(a[0]), conc(a[1]))); return H_DONE; }
static HR h_memcpy(HARGS) { uint64_t d = conc(a[0]), s = conc(a[1]), n = conc(a[2]); copyMem(d, s, n); res = mkPtr(d); return H_DONE; }
static void setMem(uint64_t d, const Val& v, uint64_t n) {
  if (!n) return;
  Obj* o = access(d, n, true);
  if (!v.s) { memset((void*)d, (int)v.c, n); eraseSym(o, d - o->base, n); return; }
  for (uint64_t i = 0; i < n; ++i) storeBytes(d + i, v, 1);
}
static HR h_memset(HARGS) { uint64_t d = conc(a[0]), n = conc(a[2]); Val v = a[1]; if (v.w > 8) v = castInt(Instruction::Trunc, v, 8); setMem(d, v, n); res = mkPtr(d); return H_DONE; }
static HR h_noop(HARGS) { if (in.dst != NOSLOT) res = zeroOf(in.ty); return H_DONE; }
static HR h_abort(HARGS) { fatalFailure("abort", "", "abort() called"); }
static HR h_terminate(HARGS) { fatalFailure("terminate", "", "std::terminate called"); }
static HR h_purevirt(HARGS) { fatalFailure("pure-virtual", "", "pure virtual function called"); }
static HR h_exit(HARGS) { fatalFailure("exit", "", "exit() called by the code under test"); }

// fast paths for mem/str functions on concrete ranges; the bitcode models handle symbolic bytes
static HR callRt(const char* name, std::vector<Val>& a) { pushFrame(rtFunc(name), a); return H_CALLED; }
static HR h_memcmp(HARGS) {
  if (!a[0].s && !a[1].s && !a[2].s && rangeConcrete(a[0].c, a[2].c) && rangeConcrete(a[1].c, a[2].c)) {
    int r = a[2].c ? memcmp((void*)a[0].c, (void*)a[1].c, a[2].c) : 0;
    res = mkInt((uint64_t)(int64_t)(r < 0 ? -1 : r > 0 ? 1 : 0), 32);
    return H_DONE;
  }
  return callRt("rt_memcmp", a);
}
static HR h_strlen(HARGS) {
  if (!a[0].s) {
    Obj* o = objAt(a[0].c);
    if (o && !o->freed && (!o->sym || o->sym->empty())) {
      void* z = memchr((void*)a[0].c, 0, o->base + o->size - a[0].c);
      if (z) { res = mkInt((uint64_t)((char*)z - (char*)a[0].c), 64); return H_DONE; }
    }
  }
  return callRt("rt_strlen", a);
}
static HR h_memchr(HARGS) { return callRt("rt_memchr", a); }
static HR h_hash_bytes(HARGS) {
  uint64_t p = conc(a[0]), n = conc(a[1]), seed = conc(a[2]);
  if (n) {
    Obj* o = access(p, n, false);
    if (hasSym(o, p - o->base, n))
      for (uint64_t i = 0; i < n; ++i) {
        Val b = loadBytes(p + i, 1, 8);
        if (b.s) { uint64_t c = concretize(b); storeBytes(p + i, mkInt(c, 8), 1); }
      }
  }
  res = mkInt(std::_Hash_bytes((void*)p, n, seed), 64);
  return H_DONE;
}
// libstdc++.so internals that only touch node headers / policy objects: executed natively on arena memory
static HR h_rb_insert(HARGS) {
  std::_Rb_tree_insert_and_rebalance(conc(a[0]) & 1, (std::_Rb_tree_node_base*)conc(a[1]), (std::_Rb_tree_node_base*)conc(a[2]), *(std::_Rb_tree_node_base*)conc(a[3]));
  return H_DONE;
}
static HR h_rb_erase(HARGS) { res = mkPtr((uint64_t)std::_Rb_tree_rebalance_for_erase((std::_Rb_tree_node_base*)conc(a[0]), *(std::_Rb_tree_node_base*)conc(a[1]))); return H_DONE; }
static HR h_rb_inc(HARGS) { uint64_t p = conc(a[0]); access(p, 32, false); res = mkPtr((uint64_t)std::_Rb_tree_increment((std::_Rb_tree_node_base*)p)); return H_DONE; }
static HR h_rb_dec(HARGS) { uint64_t p = conc(a[0]); access(p, 32, false); res = mkPtr((uint64_t)std::_Rb_tree_decrement((std::_Rb_tree_node_base*)p)); return H_DONE; }
static HR h_list_hook(HARGS) { ((std::__detail::_List_node_base*)conc(a[0]))->_M_hook((std::__detail::_List_node_base*)conc(a[1])); return H_DONE; }
static HR h_list_unhook(HARGS) { ((std::__detail::_List_node_base*)conc(a[0]))->_M_unhook(); return H_DONE; }
static HR h_list_transfer(HARGS) { ((std::__detail::_List_node_base*)conc(a[0]))->_M_transfer((std::__detail::_List_node_base*)conc(a[1]), (std::__detail::_List_node_base*)conc(a[2])); return H_DONE; }
static HR h_prime_next(HARGS) { res = mkInt(((std::__detail::_Prime_rehash_policy*)conc(a[0]))->_M_next_bkt(conc(a[1])), 64); return H_DONE; }
static HR h_prime_need(HARGS) {
  auto r = ((std::__detail::_Prime_rehash_policy*)conc(a[0]))->_M_need_rehash(conc(a[1]), conc(a[2]), conc(a[3]));
  std::vector<Val> items{mkInt(r.first, 8), mkInt(r.second, 64)};
  if (auto* st = dyn_cast<StructType>(in.ty)) items[0].w = (uint16_t)typeWidth(st->getElementType(0));
  res = mkAgg(std::move(items));
  return H_DONE;
}
static HR h_strtod(HARGS) {
  uint64_t p = conc(a[0]), e = conc(a[1]);
  for (uint64_t i = 0; i < 64; ++i) {   // symbolic characters of the (already lexed) number are concretized by forking over their feasible values
    Val b = loadBytes(p + i, 1, 8);
    uint64_t v = b.s ? concretize(b) : b.c;
    if (b.s) storeBytes(p + i, mkInt(v, 8), 1);
    if ((v & 0xff) == 0) break;
  }
  std::string s = readCStr(p);
  if (!rangeConcrete(p, s.size() + 1)) unsupported("strtod on symbolic text");
  char* end = nullptr;
  double d = strtod(s.c_str(), &end);
  if (e) storeBytes(e, mkPtr(p + (end - s.c_str())), 8);
  res = mkFP(d, 64);
  return H_DONE;
}
static HR h_lround(HARGS) { res = mkInt((uint64_t)lround(asDouble(a[0])), 64); return H_DONE; }
static HR h_snprintf(HARGS) {
  // only the formats the library uses with concrete arguments: %g family for doubles, %d/%u/%ld/%lu/%zu, %s
  uint64_t buf = conc(a[0]), n = conc(a[1]);
  std::string fmt = readCStr(conc(a[2]));
  std::string out;
  size_t ai = 3;
  for (size_t i = 0; i < fmt.size(); ++i) {
    if (fmt[i] != '%') { out += fmt[i]; continue; }
    size_t j = i + 1;
    std::string spec = "%";
    int star = -1;
    while (j < fmt.size() && strchr("-+ #0123456789.*lhzjt", fmt[j])) {
      if (fmt[j] == '*') { star = (int)conc(a[ai++]); spec += std::to_string(star); }
      else spec += fmt[j];
      ++j;
    }
    if (j >= fmt.size()) break;
    char cv = fmt[j];
    spec += cv;
    char tmp[512];
    if (cv == '%') out += '%';
    else if (strchr("diuxXc", cv)) { snprintf(tmp, sizeof tmp, spec.c_str(), (long long)conc(a[ai++])); if (spec.find('l') == std::string::npos && spec.find('z') == std::string::npos) { std::string sp2 = spec; snprintf(tmp, sizeof tmp, sp2.c_str(), (int)conc(a[ai - 1])); } out += tmp; }
    else if (strchr("eEfFgG", cv)) { if (a[ai].s) unsupported("snprintf symbolic double"); snprintf(tmp, sizeof tmp, spec.c_str(), asDouble(a[ai++])); out += tmp; }
    else if (cv == 's') { out += readCStr(conc(a[ai++])); }
    else unsupported("snprintf format " + fmt);
    i = j;
  }
  if (n) {
    size_t k = std::min<size_t>(out.size(), n - 1);
    access(buf, k + 1, true);
    for (size_t i = 0; i < k; ++i) storeBytes(buf + i, mkInt((uint8_t)out[i], 8), 1);
    storeBytes(buf + k, mkInt(0, 8), 1);
  }
  res = mkInt(out.size(), 32);
  return H_DONE;
}

// ---- exceptions
static HR h_cxa_allocate_exception(HARGS) { uint64_t n = conc(a[0]); uint64_t p = heapAlloc(n ? n : 1); memset((void*)p, 0, n); res = mkPtr(p); return H_DONE; }
static HR h_cxa_free_exception(HARGS) { heapFree(conc(a[0]), "__cxa_free_exception"); return H_DONE; }
static HR h_cxa_throw(HARGS) {
  uint64_t p = conc(a[0]);
  ExnInfo ei; ei.typeinfo = conc(a[1]); ei.dtor = conc(a[2]);
  EXN[p] = ei;
  return unwind(p);
}
static HR h_cxa_begin_catch(HARGS) {
  uint64_t p = conc(a[0]);
  CAUGHT.push_back(p);
  ExnInfo& ei = EXN[p];
  ei.handlers++;
  res = mkPtr(p + ei.adjust);
  return H_DONE;
}
static HR h_cxa_end_catch(HARGS) {
  if (CAUGHT.empty()) return H_DONE;
  uint64_t p = CAUGHT.back();
  CAUGHT.pop_back();
  ExnInfo& ei = EXN[p];
  if (--ei.handlers <= 0) {
    if (ei.rethrown) { ei.rethrown = false; return H_DONE; }
    uint64_t d = ei.dtor;
    ei.dtor = 0;
    if (d) {
      uint64_t idx = (d - FBASE) / 16;
      if (d >= FBASE && idx < FUNCS.size() && !FUNCS[idx]->F->isDeclaration()) {
        std::vector<Val> args{mkPtr(p)};
        pushFrame(FUNCS[idx], args);
        return H_CALLED;
      }
    }
  }
  return H_DONE;
}
static HR h_cxa_rethrow(HARGS) {
  if (CAUGHT.empty()) fatalFailure("terminate", "", "rethrow without an active exception");
  uint64_t p = CAUGHT.back();
  EXN[p].rethrown = true;
  return unwind(p);
}
static HR h_typeid_for(HARGS) { res = mkInt((uint64_t)(int64_t)typeIdFor(conc(a[0])), 32); return H_DONE; }
static HR h_dynamic_cast(HARGS) {
  uint64_t src = conc(a[0]), dstT = conc(a[2]);
  if (!src) { res = mkPtr(0); return H_DONE; }
  uint64_t vptr = rd64(src);
  int64_t top = (int64_t)rd64(vptr - 16);
  uint64_t mostTI = rd64(vptr - 8);
  int64_t off = 0;
  if (findBase(mostTI, dstT, 0, off)) res = mkPtr(src + top + off);
  else res = mkPtr(0);
  return H_DONE;
}

// ---- the harness API (see include/sym.h)
static bool readReplayLine(Input& in);
static Val freshInput(const std::string& name, const char* kind, unsigned w, unsigned count, std::vector<Val>* all) {
  Input in; in.name = name; in.kind = kind; in.w = w;
  if (CONCRETE_MODE) {
    Input rec;
    if (!readReplayLine(rec) || rec.vals.size() < count) { fprintf(stderr, "cxsym: replay file exhausted at input %s\n", name.c_str()); exit(3); }
    for (unsigned i = 0; i < count; ++i) in.vals.push_back(mkInt(rec.vals[i].c, w));
  } else {
    for (unsigned i = 0; i < count; ++i) {
      std::string nm = name + (count > 1 || !strcmp(kind, "bytes") ? "[" + std::to_string(i) + "]" : "") + "#" + std::to_string(INPUTS.size());
      Z3_ast c = w == 1 ? Z3_mk_const(Z, Z3_mk_string_symbol(Z, nm.c_str()), BOOLS) : Z3_mk_const(Z, Z3_mk_string_symbol(Z, nm.c_str()), bvs(w));
      in.vals.push_back(S(c, w));
    }
  }
  if (all) *all = in.vals;
  Val first = in.vals.empty() ? mkInt(0, w) : in.vals[0];
  INPUTS.push_back(std::move(in));
  return first;
}
static HR h_sym_bytes(HARGS) {
  uint64_t p = conc(a[0]), n = conc(a[1]);
  std::vector<Val> vals;
  freshInput(readCStr(conc(a[2])), "bytes", 8, (unsigned)n, &vals);
  for (uint64_t i = 0; i < n; ++i) storeBytes(p + i, vals[i], 1);
  return H_DONE;
}
static HR h_sym_int(HARGS) {  // the width comes from the declared return type
  res = freshInput(readCStr(conc(a[0])), "int", typeWidth(in.ty), 1, nullptr);
  return H_DONE;
}
static HR h_sym_range(HARGS) {
  Val lo = a[0], hi = a[1];
  res = freshInput(readCStr(conc(a[2])), "int", 32, 1, nullptr);
  Val c1 = icmp(CmpInst::ICMP_SLE, lo, res), c2 = icmp(CmpInst::ICMP_SLE, res, hi);
  assume(c1); assume(c2);
  return H_DONE;
}
static Val truth(const Val& v) {
  if (v.w == 1) return v;
  return icmp(CmpInst::ICMP_NE, v, mkInt(0, v.w));
}
static HR h_sym_assume(HARGS) { assume(truth(a[0])); return H_DONE; }
static HR h_sym_assert(HARGS) {
  Val c = truth(a[0]);
  std::string tag = readCStr(conc(a[1]));
  SH->obligations++;
  if (!c.s) {
    if (!(c.c & 1)) reportFailure("assert", tag, "assertion is false on this path (for every input following it)", nullptr);
    return H_DONE;
  }
  SH->obligationsSolver++;
  checkNever(Z3_mk_not(Z, SYM[c.s]), "assert", tag, "assertion can be violated");
  return H_DONE;
}
static HR h_sym_reach(HARGS) {
  std::string name = readCStr(conc(a[0]));
  uint64_t h = fnv(name);
  for (unsigned i = 0; i < 512; ++i) {
    ReachSlot& sl = SH->reach[(h + i) % 512];
    uint64_t cur = sl.h.load();
    if (cur == 0) {
      uint64_t z = 0;
      if (sl.h.compare_exchange_strong(z, h)) { strncpy(sl.name, name.c_str(), 55); cur = h; } else cur = z;
    }
    if (cur == h) { sl.count++; break; }
  }
  return H_DONE;
}
static HR h_sym_observe_i64(HARGS) {
  if (CONCRETE_MODE) printf("OBS %s %lld\n", readCStr(conc(a[0])).c_str(), (long long)conc(a[1]));
  return H_DONE;
}
static HR h_sym_observe_str(HARGS) {
  if (CONCRETE_MODE) {
    uint64_t p = conc(a[1]), n = conc(a[2]);
    printf("OBS %s ", readCStr(conc(a[0])).c_str());
    for (uint64_t i = 0; i < n; ++i) printf("%02x", (unsigned)conc(loadBytes(p + i, 1, 8)));
    printf("\n");
  }
  return H_DONE;
}
static HR h_sym_concretize(HARGS) { res = mkInt(concretize(a[0]), a[0].w); return H_DONE; }
static HR h_sym_concretize_bytes(HARGS) {
  uint64_t p = conc(a[0]), n = conc(a[1]);
  for (uint64_t i = 0; i < n; ++i) {
    Val b = loadBytes(p + i, 1, 8);
    if (b.s) storeBytes(p + i, mkInt(concretize(b), 8), 1);
  }
  return H_DONE;
}
static HR h_sym_is_replay(HARGS) { res = mkInt(0, 32); return H_DONE; }
static HR h_sym_is_symbolic(HARGS) { res = mkInt(a[0].s ? 1 : 0, 32); return H_DONE; }
static void pathDone();
static HR h_sym_end_path(HARGS) { pathDone(); endProcess(0); }
static HR h_sym_note(HARGS) { if (OPT.verbose || CONCRETE_MODE) fprintf(stderr, "NOTE %s\n", readCStr(conc(a[0])).c_str()); return H_DONE; }

// ---- LLVM intrinsics
static HR h_intrinsic(HARGS) {
  switch (in.iid) {
  case Intrinsic::memcpy: case Intrinsic::memmove: case Intrinsic::memcpy_inline: { uint64_t d = conc(a[0]), s = conc(a[1]), n = conc(a[2]); copyMem(d, s, n); return H_DONE; }
  case Intrinsic::memset: { uint64_t d = conc(a[0]), n = conc(a[2]); setMem(d, a[1], n); return H_DONE; }
  case Intrinsic::lifetime_start: case Intrinsic::lifetime_end: case Intrinsic::dbg_declare: case Intrinsic::dbg_value: case Intrinsic::dbg_label:
  case Intrinsic::assume: case Intrinsic::experimental_noalias_scope_decl: case Intrinsic::donothing: case Intrinsic::prefetch:
  case Intrinsic::invariant_start: case Intrinsic::invariant_end: case Intrinsic::var_annotation:
    if (in.dst != NOSLOT) res = zeroOf(in.ty);
    return H_DONE;
  case Intrinsic::expect: case Intrinsic::launder_invariant_group: case Intrinsic::strip_invariant_group: res = a[0]; return H_DONE;
  case Intrinsic::is_constant: res = mkInt(0, 1); return H_DONE;
  case Intrinsic::objectsize: res = mkInt(conc(a[1]) ? 0 : ~0ULL, in.w); return H_DONE;
  case Intrinsic::trap: fatalFailure("trap", "", "llvm.trap reached");
  case Intrinsic::eh_typeid_for: return h_typeid_for(in, a, res);
  case Intrinsic::stacksave: res = mkPtr(0); return H_DONE;
  case Intrinsic::stackrestore: return H_DONE;
  case Intrinsic::vastart: {
    Frame& fr = STACK.back();
    uint64_t list = conc(a[0]);
    uint64_t n = fr.varargs.size();
    uint64_t area = allocObj(8 * (n ? n : 1), O_STACK, "va_area");
    fr.allocas.push_back((uint32_t)(OBJS.size() - 1));
    for (uint64_t i = 0; i < n; ++i) { Val v = fr.varargs[i]; v.k = K_INT; if (v.w < 64 && !v.s) v.w = 64; if (v.s && v.w < 64) v = castInt(Instruction::ZExt, v, 64); storeBytes(area + 8 * i, v, 8); }
    storeBytes(list, mkInt(48, 32), 4); storeBytes(list + 4, mkInt(304, 32), 4);
    storeBytes(list + 8, mkPtr(area), 8); storeBytes(list + 16, mkPtr(0), 8);
    return H_DONE;
  }
  case Intrinsic::vaend: return H_DONE;
  case Intrinsic::vacopy: copyMem(conc(a[0]), conc(a[1]), 24); return H_DONE;
  case Intrinsic::load_relative: { uint64_t p = conc(a[0]); int64_t off = (int64_t)conc(a[1]); Val v = loadBytes(p + off, 4, 32); res = mkPtr(p + sextW(conc(v), 32)); return H_DONE; }
  default: break;
  }
  // arithmetic intrinsics
  unsigned w = a.empty() ? 0 : a[0].w;
  auto c2 = [&](uint64_t v) { res = mkInt(v, in.w); return H_DONE; };
  switch (in.iid) {
  case Intrinsic::abs: {
    if (!a[0].s) { int64_t x = sextW(a[0].c, w); return c2((uint64_t)(x < 0 ? -x : x)); }
    Z3_ast x = SYM[a[0].s];
    res = S(Z3_mk_ite(Z, Z3_mk_bvslt(Z, x, numAst(0, w)), Z3_mk_bvneg(Z, x), x), w);
    return H_DONE;
  }
  case Intrinsic::smax: case Intrinsic::smin: case Intrinsic::umax: case Intrinsic::umin: {
    unsigned pred = in.iid == Intrinsic::smax ? CmpInst::ICMP_SGT : in.iid == Intrinsic::smin ? CmpInst::ICMP_SLT : in.iid == Intrinsic::umax ? CmpInst::ICMP_UGT : CmpInst::ICMP_ULT;
    Val c = icmp(pred, a[0], a[1]);
    if (!c.s) res = (c.c & 1) ? a[0] : a[1]; else res = iteVal(c, a[0], a[1]);
    return H_DONE;
  }
  case Intrinsic::ctlz: case Intrinsic::cttz: case Intrinsic::ctpop: case Intrinsic::bswap: {
    uint64_t x = conc(a[0]);
    if (in.iid == Intrinsic::ctpop) return c2(__builtin_popcountll(x));
    if (in.iid == Intrinsic::bswap) { uint64_t r = __builtin_bswap64(x) >> (64 - w); return c2(r); }
    if (!x) return c2(w);
    if (in.iid == Intrinsic::ctlz) return c2(__builtin_clzll(x) - (64 - w));
    return c2(__builtin_ctzll(x));
  }
  case Intrinsic::fshl: case Intrinsic::fshr: {
    uint64_t x = conc(a[0]), y = conc(a[1]), s = conc(a[2]) % w;
    unsigned __int128 cat = ((unsigned __int128)x << w) | y;
    if (in.iid == Intrinsic::fshl) return c2((uint64_t)((cat << s) >> w));
    return c2((uint64_t)(cat >> s));
  }
  case Intrinsic::uadd_with_overflow: case Intrinsic::usub_with_overflow: case Intrinsic::umul_with_overflow:
  case Intrinsic::sadd_with_overflow: case Intrinsic::ssub_with_overflow: case Intrinsic::smul_with_overflow: {
    Val r, o;
    if (!a[0].s && !a[1].s) {
      uint64_t x = a[0].c, y = a[1].c, m = maskW(w);
      int64_t sx = sextW(x, w), sy = sextW(y, w);
      __int128 st; unsigned __int128 ut; bool ov;
      switch (in.iid) {
      case Intrinsic::uadd_with_overflow: ut = (unsigned __int128)x + y; ov = ut > m; r = mkInt((uint64_t)ut, w); break;
      case Intrinsic::usub_with_overflow: ov = y > x; r = mkInt(x - y, w); break;
      case Intrinsic::umul_with_overflow: ut = (unsigned __int128)x * y; ov = ut > m; r = mkInt((uint64_t)ut, w); break;
      case Intrinsic::sadd_with_overflow: st = (__int128)sx + sy; ov = st != (__int128)sextW((uint64_t)st, w); r = mkInt((uint64_t)st, w); break;
      case Intrinsic::ssub_with_overflow: st = (__int128)sx - sy; ov = st != (__int128)sextW((uint64_t)st, w); r = mkInt((uint64_t)st, w); break;
      default: st = (__int128)sx * sy; ov = st != (__int128)sextW((uint64_t)st, w); r = mkInt((uint64_t)st, w); break;
      }
      o = mkInt(ov, 1);
    } else {
      Z3_ast x = A(a[0]), y = A(a[1]), z, ok;
      switch (in.iid) {
      case Intrinsic::uadd_with_overflow: z = Z3_mk_bvadd(Z, x, y); ok = Z3_mk_bvadd_no_overflow(Z, x, y, false); break;
      case Intrinsic::usub_with_overflow: z = Z3_mk_bvsub(Z, x, y); ok = Z3_mk_bvsub_no_underflow(Z, x, y, false); break;
      case Intrinsic::umul_with_overflow: z = Z3_mk_bvmul(Z, x, y); ok = Z3_mk_bvmul_no_overflow(Z, x, y, false); break;
      case Intrinsic::sadd_with_overflow: { z = Z3_mk_bvadd(Z, x, y); Z3_ast k[2] = {Z3_mk_bvadd_no_overflow(Z, x, y, true), Z3_mk_bvadd_no_underflow(Z, x, y)}; ok = Z3_mk_and(Z, 2, k); break; }
      case Intrinsic::ssub_with_overflow: { z = Z3_mk_bvsub(Z, x, y); Z3_ast k[2] = {Z3_mk_bvsub_no_overflow(Z, x, y), Z3_mk_bvsub_no_underflow(Z, x, y, true)}; ok = Z3_mk_and(Z, 2, k); break; }
      default: { z = Z3_mk_bvmul(Z, x, y); Z3_ast k[2] = {Z3_mk_bvmul_no_overflow(Z, x, y, true), Z3_mk_bvmul_no_underflow(Z, x, y)}; ok = Z3_mk_and(Z, 2, k); break; }
      }
      r = S(z, w); o = S(Z3_mk_not(Z, ok), 1);
    }
    res = mkAgg({r, o});
    return H_DONE;
  }
  case Intrinsic::usub_sat: { Val c = icmp(CmpInst::ICMP_UGT, a[0], a[1]); Val d = binop(Instruction::Sub, a[0], a[1], 0, "usub.sat"); Val z = mkInt(0, w);
    if (!c.s) res = (c.c & 1) ? d : z; else res = iteVal(c, d, z); return H_DONE; }
  case Intrinsic::uadd_sat: { Val s = binop(Instruction::Add, a[0], a[1], 0, "uadd.sat"); Val c = icmp(CmpInst::ICMP_ULT, s, a[0]); Val mx = mkInt(~0ULL, w);
    if (!c.s) res = (c.c & 1) ? mx : s; else res = iteVal(c, mx, s); return H_DONE; }
  case Intrinsic::fabs: res = mkFP(fabs(asDouble(a[0])), a[0].w); return H_DONE;
  case Intrinsic::floor: res = mkFP(floor(asDouble(a[0])), a[0].w); return H_DONE;
  case Intrinsic::ceil: res = mkFP(ceil(asDouble(a[0])), a[0].w); return H_DONE;
  case Intrinsic::trunc: res = mkFP(trunc(asDouble(a[0])), a[0].w); return H_DONE;
  case Intrinsic::round: res = mkFP(round(asDouble(a[0])), a[0].w); return H_DONE;
  case Intrinsic::sqrt: res = mkFP(sqrt(asDouble(a[0])), a[0].w); return H_DONE;
  case Intrinsic::fmuladd: case Intrinsic::fma: res = mkFP(asDouble(a[0]) * asDouble(a[1]) + asDouble(a[2]), a[0].w); return H_DONE;
  default: break;
  }
  unsupported(std::string("intrinsic ") + cast<CallBase>(in.I)->getCalledFunction()->getName().str());
}
static Handler intrinsicHandler(Function* f) { return f->isIntrinsic() ? h_intrinsic : nullptr; }

static void registerHandlers() {
  auto& H = HANDLERS;
  for (const char* n : {"malloc", "_Znwm", "_Znam"}) H[n] = h_malloc;
  for (const char* n : {"free", "_ZdlPv", "_ZdaPv", "_ZdlPvm", "_ZdaPvm", "_ZdlPvSt11align_val_t", "_ZdlPvmSt11align_val_t"}) H[n] = h_free;
  H["_ZnwmSt11align_val_t"] = h_new_aligned; H["_ZnamSt11align_val_t"] = h_new_aligned;
  H["calloc"] = h_calloc; H["realloc"] = h_realloc; H["posix_memalign"] = h_posix_memalign;
  H["memcpy"] = h_memcpy; H["memmove"] = h_memcpy; H["memset"] = h_memset;
  H["memcmp"] = h_memcmp; H["bcmp"] = h_memcmp; H["strlen"] = h_strlen; H["memchr"] = h_memchr;
  H["abort"] = h_abort; H["_ZSt9terminatev"] = h_terminate; H["__cxa_pure_virtual"] = h_purevirt; H["exit"] = h_exit; H["_exit"] = h_exit;
  H["__cxa_atexit"] = h_noop; H["__cxa_call_unexpected"] = h_terminate;
  H["_ZSt11_Hash_bytesPKvmm"] = h_hash_bytes;
  H["_ZSt29_Rb_tree_insert_and_rebalancebPSt18_Rb_tree_node_baseS0_RS_"] = h_rb_insert;
  H["_ZSt28_Rb_tree_rebalance_for_erasePSt18_Rb_tree_node_baseRS_"] = h_rb_erase;
  H["_ZSt18_Rb_tree_incrementPSt18_Rb_tree_node_base"] = h_rb_inc; H["_ZSt18_Rb_tree_incrementPKSt18_Rb_tree_node_base"] = h_rb_inc;
  H["_ZSt18_Rb_tree_decrementPSt18_Rb_tree_node_base"] = h_rb_dec; H["_ZSt18_Rb_tree_decrementPKSt18_Rb_tree_node_base"] = h_rb_dec;
  H["_ZNSt8__detail15_List_node_base7_M_hookEPS0_"] = h_list_hook; H["_ZNSt8__detail15_List_node_base9_M_unhookEv"] = h_list_unhook;
  H["_ZNSt8__detail15_List_node_base11_M_transferEPS0_S1_"] = h_list_transfer;
  H["_ZNKSt8__detail20_Prime_rehash_policy11_M_next_bktEm"] = h_prime_next;
  H["_ZNKSt8__detail20_Prime_rehash_policy14_M_need_rehashEmmm"] = h_prime_need;
  H["strtod"] = h_strtod; H["lround"] = h_lround; H["snprintf"] = h_snprintf;
  H["__cxa_allocate_exception"] = h_cxa_allocate_exception; H["__cxa_free_exception"] = h_cxa_free_exception;
  H["__cxa_throw"] = h_cxa_throw; H["__cxa_begin_catch"] = h_cxa_begin_catch; H["__cxa_end_catch"] = h_cxa_end_catch;
  H["__cxa_rethrow"] = h_cxa_rethrow; H["__dynamic_cast"] = h_dynamic_cast;
  H["sym_bytes"] = h_sym_bytes;
  for (const char* n : {"sym_i32", "sym_i64", "sym_u8", "sym_u16", "sym_bool", "sym_i8", "sym_i16"}) H[n] = h_sym_int;
  H["sym_range"] = h_sym_range; H["sym_assume"] = h_sym_assume; H["sym_assert"] = h_sym_assert; H["sym_reach"] = h_sym_reach;
  H["sym_observe_i64"] = h_sym_observe_i64; H["sym_observe_str"] = h_sym_observe_str;
  H["sym_concretize_i32"] = h_sym_concretize; H["sym_concretize_i64"] = h_sym_concretize; H["sym_concretize_bytes"] = h_sym_concretize_bytes;
  H["sym_is_replay"] = h_sym_is_replay; H["sym_end_path"] = h_sym_end_path; H["sym_note"] = h_sym_note;
  H["sym_is_symbolic_i32"] = h_sym_is_symbolic; H["sym_is_symbolic_i64"] = h_sym_is_symbolic;
}

// ------------------------------------------------------------------------------------------
// the interpreter loop
// ------------------------------------------------------------------------------------------
static void pathDone() {
  SH->paths++;
  uint64_t n = SH->samples.fetch_add(1);
  if (n < OPT.samples && !CONCRETE_MODE) {
    std::string f = OPT.out + "/sample_" + std::to_string(n) + ".json";
    FILE* fp = fopen(f.c_str(), "w");
    if (fp) { fprintf(fp, "{\"path\":\"%s\",\"instructions\":%llu,\"inputs\":%s}\n", PATHID.c_str(), (unsigned long long)pathInstr, inputsJson(MODEL).c_str()); fclose(fp); }
  }
}

static Val fcmpVal(unsigned pred, double x, double y) {
  bool un = std::isnan(x) || std::isnan(y), r = false;
  switch (pred) {
  case CmpInst::FCMP_FALSE: r = false; break;
  case CmpInst::FCMP_OEQ: r = !un && x == y; break;
  case CmpInst::FCMP_OGT: r = !un && x > y; break;
  case CmpInst::FCMP_OGE: r = !un && x >= y; break;
  case CmpInst::FCMP_OLT: r = !un && x < y; break;
  case CmpInst::FCMP_OLE: r = !un && x <= y; break;
  case CmpInst::FCMP_ONE: r = !un && x != y; break;
  case CmpInst::FCMP_ORD: r = !un; break;
  case CmpInst::FCMP_UNO: r = un; break;
  case CmpInst::FCMP_UEQ: r = un || x == y; break;
  case CmpInst::FCMP_UGT: r = un || x > y; break;
  case CmpInst::FCMP_UGE: r = un || x >= y; break;
  case CmpInst::FCMP_ULT: r = un || x < y; break;
  case CmpInst::FCMP_ULE: r = un || x <= y; break;
  case CmpInst::FCMP_UNE: r = un || x != y; break;
  case CmpInst::FCMP_TRUE: r = true; break;
  }
  return mkInt(r, 1);
}

static Val aggGet(const Val& agg, const std::vector<unsigned>& idx, size_t k = 0) {
  if (k == idx.size()) return agg;
  return aggGet(AGGS[agg.s][idx[k]], idx, k + 1);
}
static Val aggSet(const Val& agg, const std::vector<unsigned>& idx, const Val& v, size_t k = 0) {
  if (k == idx.size()) return v;
  std::vector<Val> items = AGGS[agg.s];
  items[idx[k]] = aggSet(items[idx[k]], idx, v, k + 1);
  return mkAgg(std::move(items));
}

static Val LASTRET;
static void run(size_t baseDepth) {
  for (;;) {
    Frame* fr = &STACK.back();
    CInst& in = fr->f->insts[fr->pc];
    if ((++pathInstr & 0xFFFFF) == 0) {
      if (SH->stop.load()) endProcess(0);
      if (pathInstr > OPT.maxInstrPath) {
        SH->budgetHit++;
        if (sigCount("budget:instr") <= 3) {
          std::string f = OPT.out + "/budget_" + std::to_string(getpid()) + ".json";
          FILE* fp = fopen(f.c_str(), "w");
          if (fp) { fprintf(fp, "{\"kind\":\"instruction-budget\",\"instructions\":%llu,\"stack\":\"%s\",\"inputs\":%s}\n", (unsigned long long)pathInstr, jsonEsc(stackString(16)).c_str(), inputsJson(MODEL).c_str()); fclose(fp); }
        }
        endProcess(0);
      }
      if (nowS() - T0 > OPT.wallCap) { SH->budgetHit++; endProcess(0); }
    }
#define OP(i) getOp(*fr, in.ops[i])
#define SET(v) do { REGS[fr->regBase + in.dst] = (v); fr->pc++; } while (0)
    switch (in.op) {
    case Instruction::Br: {
      if (in.ops.empty()) { takeEdge(*fr, in.succ[0]); break; }
      Val c = OP(0);
      bool t = c.s ? decide(c) : (c.c & 1);
      fr = &STACK.back();
      takeEdge(*fr, in.succ[t ? 0 : 1]);
      break;
    }
    case Instruction::Switch: {
      Val c = OP(0);
      size_t target = 0;
      if (!c.s) {
        for (size_t i = 0; i < in.caseVals.size(); ++i) if (in.caseVals[i] == c.c) { target = i + 1; break; }
      } else {
        for (size_t i = 0; i < in.caseVals.size(); ++i) {
          Val e = icmp(CmpInst::ICMP_EQ, c, mkInt(in.caseVals[i], c.w));
          if (decide(e)) { target = i + 1; break; }
        }
      }
      takeEdge(*fr, in.succ[target]);
      break;
    }
    case Instruction::Ret: {
      Val rv = in.ops.empty() ? Val() : OP(0);
      popFrame();
      if (STACK.size() == baseDepth) { LASTRET = rv; return; }
      finishCall(rv);
      break;
    }
    case Instruction::Unreachable: fatalFailure("unreachable", "", "reached an 'unreachable' instruction (undefined behaviour) in " + shortName(fr->f->name));
    case Instruction::Call: case Instruction::Invoke: {
      auto* cb = cast<CallBase>(in.I);
      unsigned na = cb->arg_size();
      std::vector<Val> args(na);
      for (unsigned i = 0; i < na; ++i) args[i] = OP(i);
      CFunc* callee = in.callee;
      Handler h = in.ext;
      if (!callee && !h) {
        if (in.ops.size() > na) {
          uint64_t fa = concretize(OP(na));
          fr = &STACK.back();
          uint64_t idx = (fa - FBASE) / 16;
          if (fa < FBASE || idx >= FUNCS.size() || (fa - FBASE) % 16) fatalFailure(fa < 4096 ? "null-deref" : "bad-call", "", "indirect call through an invalid function pointer");
          callee = FUNCS[idx];
          if (callee->F->isDeclaration()) {
            auto it = HANDLERS.find(callee->name);
            if (it == HANDLERS.end()) unsupported("external function " + callee->name);
            h = it->second; callee = nullptr;
          }
        } else {
          if (cb->isInlineAsm()) unsupported("inline asm");
          unsupported("external function " + cb->getCalledOperand()->stripPointerCasts()->getName().str());
        }
      }
      if (h) {
        Val res;
        HR r = h(in, args, res);
        if (r == H_DONE) finishCall(res);
        break;
      }
      pushFrame(callee, args);
      break;
    }
    case Instruction::Resume: {
      Val agg = OP(0);
      uint64_t exn = conc(AGGS[agg.s][0]);
      popFrame();
      unwind(exn);
      break;
    }
    case Instruction::LandingPad: {
      std::vector<Val> items{mkPtr(pendingExn), mkInt((uint64_t)(int64_t)pendingSel, 32)};
      SET(mkAgg(std::move(items)));
      break;
    }
    case Instruction::Alloca: {
      uint64_t cnt = conc(OP(0));
      fr = &STACK.back();
      uint64_t a = allocObj(in.size * cnt, O_STACK, nullptr, in.aux);
      fr->allocas.push_back((uint32_t)(OBJS.size() - 1));
      SET(mkPtr(a));
      break;
    }
    case Instruction::Load: {
      Val p = OP(0);
      Val v = p.s ? loadAt(p, in.ty) : loadTyped(in.ty, p.c);
      fr = &STACK.back();
      SET(v);
      break;
    }
    case Instruction::Store: {
      Val v = OP(0), p = OP(1);
      uint64_t a = p.s ? concretize(p) : p.c;
      fr = &STACK.back();
      storeTyped(in.ty, a, v);
      fr->pc++;
      break;
    }
    case Instruction::GetElementPtr: {
      Val base = OP(0);
      GepInfo* g = in.gep;
      if (g->var.empty()) {
        if (!base.s) { SET(mkPtr(base.c + g->constOff)); break; }
        SET(binop(Instruction::Add, base, mkInt((uint64_t)g->constOff, 64), 0, "gep"));
        break;
      }
      Val acc = base;
      if (g->constOff) acc = binop(Instruction::Add, acc, mkInt((uint64_t)g->constOff, 64), 0, "gep");
      for (auto& pr : g->var) {
        Val idx = getOp(*fr, in.ops[pr.first]);
        if (idx.w < 64) idx = castInt(Instruction::SExt, idx, 64);
        else if (idx.w > 64) idx = castInt(Instruction::Trunc, idx, 64);
        Val sc = binop(Instruction::Mul, idx, mkInt(pr.second, 64), 0, "gep");
        acc = binop(Instruction::Add, acc, sc, 0, "gep");
      }
      acc.poison = 0;
      SET(acc);
      break;
    }
    case Instruction::Add: case Instruction::Sub: case Instruction::Mul: case Instruction::UDiv: case Instruction::SDiv:
    case Instruction::URem: case Instruction::SRem: case Instruction::Shl: case Instruction::LShr: case Instruction::AShr:
    case Instruction::And: case Instruction::Or: case Instruction::Xor: {
      Val a = OP(0), b = OP(1);
      if (a.w > 64) unsupported("integer wider than 64 bits");
      Val r = binop(in.op, a, b, in.aux, fr->f->name.c_str());
      fr = &STACK.back();
      SET(r);
      break;
    }
    case Instruction::ICmp: { Val r = icmp(in.aux, OP(0), OP(1)); SET(r); break; }
    case Instruction::Trunc: case Instruction::ZExt: case Instruction::SExt: case Instruction::PtrToInt: case Instruction::IntToPtr: {
      Val a = OP(0);
      if (in.w > 64 || a.w > 64) unsupported("integer wider than 64 bits");
      SET(castInt(in.op, a, in.w));
      break;
    }
    case Instruction::BitCast: {
      Val a = OP(0);
      if (a.k != K_AGG) { a.k = in.ty->isFloatingPointTy() ? K_FP : K_INT; if (a.k == K_FP && a.s) unsupported("symbolic int to fp bitcast"); }
      SET(a);
      break;
    }
    case Instruction::AddrSpaceCast: case Instruction::Freeze: { Val a = OP(0); a.poison = 0; SET(a); break; }
    case Instruction::Select: {
      Val c = OP(0), a = OP(1), b = OP(2);
      if (!c.s) { SET((c.c & 1) ? a : b); break; }
      if (a.k == K_INT && b.k == K_INT) {
        if (!a.s && !b.s && a.c == b.c) { SET(a); break; }
        SET(iteVal(c, a, b));
        break;
      }
      bool t = decide(c);
      fr = &STACK.back();
      SET(t ? a : b);
      break;
    }
    case Instruction::ExtractValue: SET(aggGet(OP(0), in.idxs)); break;
    case Instruction::InsertValue: SET(aggSet(OP(0), in.idxs, OP(1))); break;
    case Instruction::FAdd: case Instruction::FSub: case Instruction::FMul: case Instruction::FDiv: case Instruction::FRem: {
      Val a = OP(0), b = OP(1);
      double x = asDouble(a), y = asDouble(b), z;
      switch (in.op) {
      case Instruction::FAdd: z = x + y; break;
      case Instruction::FSub: z = x - y; break;
      case Instruction::FMul: z = x * y; break;
      case Instruction::FDiv: z = x / y; break;
      default: z = fmod(x, y); break;
      }
      if (a.w == 32) { float fx, fy; uint32_t bx = (uint32_t)a.c, by = (uint32_t)b.c; memcpy(&fx, &bx, 4); memcpy(&fy, &by, 4);
        float fz = in.op == Instruction::FAdd ? fx + fy : in.op == Instruction::FSub ? fx - fy : in.op == Instruction::FMul ? fx * fy : in.op == Instruction::FDiv ? fx / fy : fmodf(fx, fy);
        z = fz; }
      SET(mkFP(z, a.w));
      break;
    }
    case Instruction::FNeg: { Val a = OP(0); SET(mkFP(-asDouble(a), a.w)); break; }
    case Instruction::FCmp: { Val a = OP(0), b = OP(1); SET(fcmpVal(in.aux, asDouble(a), asDouble(b))); break; }
    case Instruction::FPExt: case Instruction::FPTrunc: { Val a = OP(0); SET(mkFP(asDouble(a), in.w)); break; }
    case Instruction::FPToUI: { Val a = OP(0); double d = asDouble(a); SET(mkInt(d < 0 ? 0 : (uint64_t)d, in.w)); break; }
    case Instruction::FPToSI: { Val a = OP(0); SET(mkInt((uint64_t)(int64_t)asDouble(a), in.w)); break; }
    case Instruction::UIToFP: { Val a = OP(0); uint64_t x = conc(a); fr = &STACK.back(); SET(mkFP((double)x, in.w)); break; }
    case Instruction::SIToFP: { Val a = OP(0); uint64_t x = conc(a); fr = &STACK.back(); SET(mkFP((double)sextW(x, a.w), in.w)); break; }
    case Instruction::AtomicRMW: {
      Val p = OP(0), v = OP(1);
      uint64_t a = conc(p);
      fr = &STACK.back();
      unsigned bytes = (unsigned)in.size, w = v.w;
      Val old = loadBytes(a, bytes, w), nv;
      switch (in.aux) {
      case AtomicRMWInst::Xchg: nv = v; break;
      case AtomicRMWInst::Add: nv = binop(Instruction::Add, old, v, 0, "atomicrmw"); break;
      case AtomicRMWInst::Sub: nv = binop(Instruction::Sub, old, v, 0, "atomicrmw"); break;
      case AtomicRMWInst::And: nv = binop(Instruction::And, old, v, 0, "atomicrmw"); break;
      case AtomicRMWInst::Or: nv = binop(Instruction::Or, old, v, 0, "atomicrmw"); break;
      case AtomicRMWInst::Xor: nv = binop(Instruction::Xor, old, v, 0, "atomicrmw"); break;
      default: unsupported("atomicrmw operation");
      }
      storeBytes(a, nv, bytes);
      SET(old);
      break;
    }
    case Instruction::AtomicCmpXchg: {
      uint64_t a = conc(OP(0));
      fr = &STACK.back();
      Val cmp = OP(1), nv = OP(2);
      unsigned bytes = (unsigned)DL->getTypeStoreSize(cast<AtomicCmpXchgInst>(in.I)->getCompareOperand()->getType());
      Val old = loadBytes(a, bytes, cmp.w);
      Val eq = icmp(CmpInst::ICMP_EQ, old, cmp);
      bool t = decide(eq);
      fr = &STACK.back();
      if (t) storeBytes(a, nv, bytes);
      SET(mkAgg({old, mkInt(t, 1)}));
      break;
    }
    case Instruction::Fence: fr->pc++; break;
    case Instruction::VAArg: unsupported("va_arg instruction");
    default:
      unsupported(std::string("instruction ") + in.I->getOpcodeName());
    }
  }
}
