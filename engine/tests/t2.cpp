#include "sym.h"
#include "ccl/semantic/RSForm.h"
#include "ccl/api/RSFormJA.h"
using namespace ccl;
extern "C" void harness_main() {
  semantic::RSForm f;
  auto x1 = f.Emplace(semantic::CstType::base);
  auto d1 = f.Emplace(semantic::CstType::term, "X1\\X1");
  auto d2 = f.Emplace(semantic::CstType::term, "D1\xE2\x88\xAA" "X1");
  sym_observe_i64("x1", x1); sym_observe_i64("d1", d1);
  sym_observe_i64("status-d1", (int)f.GetParse(d1).status);
  sym_observe_i64("status-d2", (int)f.GetParse(d2).status);
  auto ja = api::RSFormJA::FromData(std::move(f));
  std::string js = ja.ToJSON();
  sym_observe_str("json", js.data(), js.size());
  auto back = api::RSFormJA::FromJSON(js);
  std::string js2 = back.ToJSON();
  sym_assert(js == js2, "json-stable");
  std::string chk = back.CheckExpression("X1\xE2\x88\xAA" "D2");
  sym_observe_str("check", chk.data(), chk.size());
}
