#include "sym.h"
#include <string>
#include <vector>
#include <map>
#include <unordered_map>
#include <stdexcept>
extern "C" void harness_main() {
  char buf[4];
  sym_bytes(buf, 3, "s"); buf[3]=0;
  std::string s(buf, 3);
  std::vector<int> v;
  for (char c : s) if (c >= '0' && c <= '9') v.push_back(c - '0');
  std::map<int,int> m; for (int x : v) m[x]++;
  std::unordered_map<std::string,int> um; um["abc"] = 1; um["abc"] += 2; um["x"]=5;
  int total = 0; for (auto& kv : m) total += kv.second;
  sym_assert(total == (int)v.size(), "count");
  try { if (v.size() == 3) throw std::out_of_range("three"); }
  catch (const std::logic_error& e) { sym_reach("caught"); sym_assert(std::string(e.what()) == "three", "what"); }
  int32_t x = sym_i32("x");
  sym_assume(x > 10 && x < 1000);
  sym_assert(x * 2 != 246, "findme");
  if (s == "abc") sym_assert(um["abc"] == 3, "um");
}
