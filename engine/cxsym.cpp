// cxsym — bounded symbolic executor over LLVM-14 IR (KLEE-class), written for /verif.
//
//   cxsym <module.bc> --entry <fn> --out <dir> [--jobs N] [--replay file] [--wall S] [--max-instr N] ...
//
// One OS process per path state: a symbolic branch whose two sides are both feasible (decided by Z3)
// fork()s the engine; copy-on-write memory gives state copying for free and at most --jobs processes
// run at any time (depth-first otherwise).  Counters and failure signatures live in shared memory.
#include "run.h"
#include <algorithm>
#include <fstream>
#include <sstream>

static std::ifstream REPLAY;
static bool readReplayLine(Input& in) {
  std::string line;
  while (std::getline(REPLAY, line)) {
    if (line.empty() || line[0] == '#') continue;
    std::istringstream is(line);
    size_t n = 0;
    is >> in.kind >> in.name >> in.w >> n;
    in.vals.clear();
    for (size_t i = 0; i < n; ++i) { uint64_t v = 0; is >> v; in.vals.push_back(mkInt(v, 64)); }
    return true;
  }
  return false;
}

static void layoutGlobals() {
  // functions
  for (Function& f : *MOD) {
    CFunc* cf = new CFunc();
    cf->F = &f; cf->idx = (uint32_t)FUNCS.size(); cf->name = f.getName().str();
    cf->addr = FBASE + 16 * (uint64_t)cf->idx;
    if (f.hasExternalWeakLinkage() && f.isDeclaration()) cf->addr = 0;
    FUNCS.push_back(cf);
    FMAP[&f] = cf;
  }
  // data
  for (GlobalVariable& g : MOD->globals()) {
    if (g.isDeclaration() && g.hasExternalWeakLinkage()) { GADDR[&g] = 0; continue; }
    Type* t = g.getValueType();
    uint64_t sz = t->isSized() ? DL->getTypeAllocSize(t) : 64;
    uint64_t al = g.getAlign() ? g.getAlign()->value() : 16;
    char* nm = strdup(g.getName().str().c_str());
    GADDR[&g] = allocObj(sz, O_GLOBAL, nm, al);
    if (g.isDeclaration() && OPT.verbose) fprintf(stderr, "cxsym: note: external global %s modelled as zero-filled\n", nm);
  }
  for (GlobalVariable& g : MOD->globals())
    if (g.hasInitializer()) writeConst(g.getInitializer(), GADDR[&g]);
  for (GlobalVariable& g : MOD->globals())
    if (g.isConstant() && g.hasInitializer()) { Obj* o = objAt(GADDR[&g]); if (o) o->ro = true; }
  auto vt = [&](const char* n) -> uint64_t { GlobalVariable* g = MOD->getGlobalVariable(n, true); return g ? GADDR[g] + 16 : 0; };
  VT_CLASS = vt("_ZTVN10__cxxabiv117__class_type_infoE");
  VT_SI = vt("_ZTVN10__cxxabiv120__si_class_type_infoE");
  VT_VMI = vt("_ZTVN10__cxxabiv121__vmi_class_type_infoE");
}

static void runCtors() {
  GlobalVariable* gc = MOD->getGlobalVariable("llvm.global_ctors");
  if (!gc || !gc->hasInitializer()) return;
  auto* arr = dyn_cast<ConstantArray>(gc->getInitializer());
  if (!arr) return;
  std::vector<std::pair<uint64_t, Function*>> ctors;
  for (unsigned i = 0; i < arr->getNumOperands(); ++i) {
    auto* cs = cast<ConstantStruct>(arr->getOperand(i));
    Function* f = dyn_cast<Function>(cs->getOperand(1)->stripPointerCasts());
    if (f) ctors.push_back({cast<ConstantInt>(cs->getOperand(0))->getZExtValue(), f});
  }
  std::stable_sort(ctors.begin(), ctors.end(), [](auto& a, auto& b) { return a.first < b.first; });
  for (auto& c : ctors) {
    std::vector<Val> args;
    pushFrame(FMAP.at(c.second), args);
    run(0);
  }
}

static void writeResult() {
  std::string f = OPT.out + "/result.json";
  FILE* fp = fopen(f.c_str(), "w");
  if (!fp) { perror("result.json"); return; }
  fprintf(fp, "{\n");
#define CNT(n) fprintf(fp, " \"%s\": %llu,\n", #n, (unsigned long long)SH->n.load())
  CNT(paths); CNT(pruned); CNT(forks); CNT(queries); CNT(qSat); CNT(qUnsat); CNT(qUnknown); CNT(instr); CNT(failures);
  CNT(obligations); CNT(obligationsSolver); CNT(budgetHit); CNT(unsupported); CNT(procs); CNT(maxPathInstr); CNT(inconclusive);
  CNT(ovfCandidates); CNT(errorsFatal); CNT(stop);
  fprintf(fp, " \"solver_s\": %.3f,\n \"wall_s\": %.3f,\n", SH->solverNs.load() * 1e-9, nowS() - T0);
  fprintf(fp, " \"reach\": {");
  bool first = true;
  for (unsigned i = 0; i < 512; ++i)
    if (SH->reach[i].h.load()) { fprintf(fp, "%s\"%s\": %llu", first ? "" : ", ", jsonEsc(SH->reach[i].name).c_str(), (unsigned long long)SH->reach[i].count.load()); first = false; }
  fprintf(fp, "},\n \"functions\": [");
  first = true;
  unsigned nf = 0;
  for (CFunc* cf : FUNCS) {
    if (cf->idx >= 16384 || !SH->funcHit[cf->idx].load()) continue;
    ++nf;
    std::string d = shortName(cf->name);
    if (d.find("ccl::") == std::string::npos) continue;
    fprintf(fp, "%s\"%s\"", first ? "" : ", ", jsonEsc(d).c_str());
    first = false;
  }
  fprintf(fp, "],\n \"functions_executed_total\": %u\n}\n", nf);
  fclose(fp);
}

int main(int argc, char** argv) {
  for (int i = 1; i < argc; ++i) {
    std::string a = argv[i];
    auto nxt = [&]() -> std::string { if (i + 1 >= argc) { fprintf(stderr, "missing value for %s\n", a.c_str()); exit(2); } return argv[++i]; };
    if (a == "--entry") OPT.entry = nxt();
    else if (a == "--out") OPT.out = nxt();
    else if (a == "--jobs") OPT.jobs = std::stoul(nxt());
    else if (a == "--replay") OPT.replay = nxt();
    else if (a == "--wall") OPT.wallCap = std::stod(nxt());
    else if (a == "--max-instr") OPT.maxInstrPath = std::stoull(nxt());
    else if (a == "--max-paths") OPT.maxPaths = std::stoull(nxt());
    else if (a == "--rlimit") OPT.rlimit = std::stoul(nxt());
    else if (a == "--cvc5-ms") OPT.cvc5Ms = std::stoul(nxt());
    else if (a == "--ptr-cap") OPT.ptrCap = std::stoul(nxt());
    else if (a == "--no-overflow") OPT.checkOverflow = false;
    else if (a == "--samples") OPT.samples = std::stoul(nxt());
    else if (a == "--max-per-sig") OPT.maxPerSig = std::stoul(nxt());
    else if (a == "--stop-tag") OPT.stopTag = nxt();
    else if (a == "-v") OPT.verbose = true;
    else if (a[0] != '-') OPT.bc = a;
    else { fprintf(stderr, "unknown option %s\n", a.c_str()); return 2; }
  }
  if (OPT.bc.empty()) { fprintf(stderr, "usage: cxsym module.bc --entry fn --out dir\n"); return 2; }
  T0 = nowS();
  SH = (Shared*)mmap(nullptr, sizeof(Shared), PROT_READ | PROT_WRITE, MAP_SHARED | MAP_ANONYMOUS, -1, 0);
  if (SH == MAP_FAILED) { perror("mmap shared"); return 3; }
  memset((void*)SH, 0, sizeof(Shared));
  sem_init(&SH->slots, 1, OPT.jobs > 0 ? OPT.jobs - 1 : 0);
  prctl(PR_SET_CHILD_SUBREAPER, 1);
  for (int s : {SIGSEGV, SIGBUS, SIGFPE, SIGABRT, SIGILL}) signal(s, crashHandler);

  auto rss = [](const char* w) { if (!getenv("CXSYM_FORKBENCH")) return; { double t = nowS(); for (int i = 0; i < 200; ++i) { pid_t p = fork(); if (!p) _exit(0); int st; waitpid(p, &st, 0); } fprintf(stderr, "fork @%s: %.3f ms\n", w, (nowS() - t) * 5); } FILE* f = fopen("/proc/self/statm", "r"); long a, b; if (f && fscanf(f, "%ld %ld", &a, &b) == 2) fprintf(stderr, "rss %s: %ld MB\n", w, b * 4 / 1024); if (f) fclose(f); };
  rss("start");
  SMDiagnostic err;
  MOD = parseIRFile(OPT.bc, err, CTX);
  if (!MOD) { err.print("cxsym", errs()); return 3; }
  DL = &MOD->getDataLayout();
  rss("module loaded");

  Z3_config cfg = Z3_mk_config();
  Z3_set_param_value(cfg, "model", "true");
  Z = Z3_mk_context(cfg);  // non-rc: asts live as long as the context (a path process is short-lived)
  Z3_del_config(cfg);
  Z3_set_error_handler(Z, [](Z3_context c, Z3_error_code e) { fprintf(stderr, "cxsym: Z3 error: %s (path %s)\n", Z3_get_error_msg(c, e), PATHID.c_str()); SH->errorsFatal++; if (!isRoot && ownsSlot) sem_post(&SH->slots); _exit(72); });
  BOOLS = Z3_mk_bool_sort(Z);
  SOLVER = Z3_mk_solver(Z);
  Z3_solver_inc_ref(Z, SOLVER);
  {
    Z3_params p = Z3_mk_params(Z);
    Z3_params_inc_ref(Z, p);
    Z3_params_set_uint(Z, p, Z3_mk_string_symbol(Z, "rlimit"), OPT.rlimit);
    Z3_solver_set_params(Z, SOLVER, p);
    Z3_params_dec_ref(Z, p);
  }
  MODEL = Z3_mk_model(Z);
  Z3_model_inc_ref(Z, MODEL);

  rss("z3 ready");
  initArena();
  registerHandlers();
  layoutGlobals();
  rss("globals laid out");
  REGS.reserve(1 << 20);
  STACK.reserve(4096);
  if (!OPT.replay.empty()) {
    CONCRETE_MODE = true;
    REPLAY.open(OPT.replay);
    if (!REPLAY) { fprintf(stderr, "cannot open replay file %s\n", OPT.replay.c_str()); return 3; }
  }
  Function* entry = MOD->getFunction(OPT.entry);
  if (!entry || entry->isDeclaration()) { fprintf(stderr, "cxsym: entry function %s not found\n", OPT.entry.c_str()); return 3; }
  if (getenv("CXSYM_FORKBENCH")) {
    double t = nowS();
    for (int i = 0; i < 1000; ++i) { pid_t p = fork(); if (!p) _exit(0); int st; waitpid(p, &st, 0); }
    fprintf(stderr, "fork+exit+wait: %.3f ms each\n", (nowS() - t));
  }
  try {
    runCtors();
    std::vector<Val> args;
    pushFrame(FMAP.at(entry), args);
    run(0);
    pathDone();
    endProcess(0);
  } catch (int) {
  }
  // only the root gets here, after every descendant has exited
  writeResult();
  fflush(stdout); fflush(stderr);
  _exit(0);  // skip static destructors of LLVM/Z3
}
