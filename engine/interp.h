// cxsym — Part 3: module loading, decoding, memory access, instruction semantics.
#pragma once
#include "solver.h"

static std::unique_ptr<Module> MOD;
static const DataLayout* DL;
static LLVMContext CTX;

// ------------------------------------------------------------------------------------------
// decoded program
// ------------------------------------------------------------------------------------------
static const uint32_t NOSLOT = ~0u;
struct Opnd { uint32_t slot = NOSLOT; Val cv; };
struct PhiMove { uint32_t dst; Opnd src; };
struct Succ { uint32_t pc = 0; std::vector<PhiMove> phis; };
struct GepInfo { int64_t constOff = 0; std::vector<std::pair<unsigned, uint64_t>> var; };
struct CFunc;
struct CInst;
enum HR { H_DONE, H_CALLED, H_UNWIND };
typedef HR (*Handler)(CInst& in, std::vector<Val>& args, Val& res);
struct CInst {
  Instruction* I = nullptr;
  unsigned op = 0;
  uint32_t dst = NOSLOT;
  std::vector<Opnd> ops;
  unsigned aux = 0;       // predicate, flags
  unsigned w = 0;         // result width
  uint64_t size = 0;      // bytes for load/store, element size for alloca
  Type* ty = nullptr;
  std::vector<Succ> succ;
  std::vector<uint64_t> caseVals;
  GepInfo* gep = nullptr;
  CFunc* callee = nullptr;
  Handler ext = nullptr;
  Intrinsic::ID iid = Intrinsic::not_intrinsic;
  std::vector<unsigned> idxs;  // extractvalue / insertvalue
};
struct CFunc {
  Function* F = nullptr;
  std::vector<CInst> insts;
  uint32_t nslots = 0, idx = 0;
  bool decoded = false;
  std::string name;
  uint64_t addr = 0;
};
static std::vector<CFunc*> FUNCS;
static std::unordered_map<const Function*, CFunc*> FMAP;
static std::unordered_map<const GlobalVariable*, uint64_t> GADDR;
static std::unordered_map<std::string, Handler> HANDLERS;

struct Frame {
  CFunc* f;
  size_t regBase;
  uint32_t pc;
  std::vector<uint32_t> allocas;
  std::vector<Val> varargs;
};
static std::vector<Frame> STACK;
static std::vector<Val> REGS;

static std::string shortName(const std::string& mangled) {
  std::string d = llvm::demangle(mangled);
  size_t p = d.find('(');
  if (p != std::string::npos) d = d.substr(0, p);
  return d;
}
static std::string stackString(unsigned maxFrames) {
  std::string o;
  unsigned n = 0;
  for (size_t i = STACK.size(); i-- > 0 && n < maxFrames; ++n) {
    if (n) o += " <- ";
    o += shortName(STACK[i].f->name);
  }
  return o;
}
static std::string innermostRepoFrame() {
  for (size_t i = STACK.size(); i-- > 0;) {
    std::string d = shortName(STACK[i].f->name);
    if (d.find("ccl::") != std::string::npos || d.find("reflex::") != std::string::npos || d.find("nlohmann::") != std::string::npos) {
      // strip template arguments to keep signatures stable
      std::string o; int depth = 0;
      for (char ch : d) { if (ch == '<') depth++; else if (ch == '>') depth--; else if (!depth) o += ch; }
      return o;
    }
  }
  return STACK.empty() ? "?" : shortName(STACK.back().f->name);
}

// ------------------------------------------------------------------------------------------
// memory access
// ------------------------------------------------------------------------------------------
[[noreturn]] static void memFault(uint64_t addr, uint64_t n, bool write, Obj* o) {
  char d[200];
  const char* kind = "oob";
  if (addr < 4096) kind = "null-deref";
  else if (o && o->freed) kind = "use-after-free";
  else if (o && write && o->ro && addr + n <= o->base + o->size) kind = "write-const";
  snprintf(d, sizeof d, "%s of %llu bytes at %#llx (object %s base %#llx size %llu)", write ? "write" : "read",
           (unsigned long long)n, (unsigned long long)addr, o && o->name ? o->name : (o ? "heap/stack" : "none"),
           (unsigned long long)(o ? o->base : 0), (unsigned long long)(o ? o->size : 0));
  fatalFailure(kind, "", d);
}
static inline Obj* access(uint64_t addr, uint64_t n, bool write) {
  Obj* o = objAt(addr);
  if (!o || o->freed || addr + n > o->base + o->size || addr < o->base || (write && o->ro)) memFault(addr, n, write, o);
  return o;
}
static inline bool hasSym(Obj* o, uint64_t off, uint64_t n) {
  if (!o->sym || o->sym->empty()) return false;
  auto it = o->sym->lower_bound((uint32_t)off);
  return it != o->sym->end() && it->first < off + n;
}
static void eraseSym(Obj* o, uint64_t off, uint64_t n) {
  if (!o->sym || o->sym->empty()) return;
  auto a = o->sym->lower_bound((uint32_t)off), b = o->sym->lower_bound((uint32_t)(off + n));
  o->sym->erase(a, b);
}
static unsigned astWidth(Z3_ast a) { return Z3_get_bv_sort_size(Z, Z3_get_sort(Z, a)); }

static Val loadBytes(uint64_t addr, unsigned bytes, unsigned w) {
  Obj* o = access(addr, bytes, false);
  uint64_t off = addr - o->base;
  if (!hasSym(o, off, bytes)) {
    uint64_t v = 0;
    memcpy(&v, (void*)addr, bytes);
    return mkInt(v, w);
  }
  // gather runs
  Z3_ast acc = nullptr;
  unsigned i = 0;
  while (i < bytes) {
    auto it = o->sym->find((uint32_t)(off + i));
    Z3_ast piece; unsigned len = 1;
    if (it == o->sym->end()) {
      uint64_t v = 0;
      while (i + len < bytes && len < 8 && !o->sym->count((uint32_t)(off + i + len))) ++len;
      memcpy(&v, (void*)(addr + i), len);
      piece = numAst(v, 8 * len);
    } else {
      SymByte sb = it->second;
      while (i + len < bytes) {
        auto jt = o->sym->find((uint32_t)(off + i + len));
        if (jt == o->sym->end() || jt->second.parent != sb.parent || jt->second.idx != sb.idx + len) break;
        ++len;
      }
      Z3_ast p = SYM[sb.parent];
      unsigned pw = astWidth(p);
      if (sb.idx == 0 && pw == 8 * len) {
        piece = p;
        if (len == bytes && w == pw) { Val r; r.s = sb.parent; r.w = (uint16_t)w; return r; }
      } else piece = Z3_mk_extract(Z, 8 * (sb.idx + len) - 1, 8 * sb.idx, p);
    }
    acc = acc ? Z3_mk_concat(Z, piece, acc) : piece;  // little endian: later bytes are more significant
    i += len;
  }
  if (w == 1) return S(Z3_mk_eq(Z, Z3_mk_extract(Z, 0, 0, acc), Z3_mk_unsigned_int64(Z, 1, bvs(1))), 1);
  if (w < 8 * bytes) acc = Z3_mk_extract(Z, w - 1, 0, acc);
  return S(acc, w);
}
static void storeBytes(uint64_t addr, const Val& v, unsigned bytes) {
  Obj* o = access(addr, bytes, true);
  uint64_t off = addr - o->base;
  if (!v.s) {
    uint64_t c = v.c;
    memcpy((void*)addr, &c, bytes);
    eraseSym(o, off, bytes);
    return;
  }
  uint32_t parent = v.s;
  if (v.w != 8 * bytes) {
    Z3_ast a = v.w == 1 ? Z3_mk_ite(Z, SYM[v.s], numAst(1, 8 * bytes), numAst(0, 8 * bytes)) : Z3_mk_zero_ext(Z, 8 * bytes - v.w, SYM[v.s]);
    Val t = S(a, 8 * bytes);
    parent = t.s;
  }
  if (!o->sym) o->sym = new SymMap();
  for (unsigned i = 0; i < bytes; ++i) (*o->sym)[(uint32_t)(off + i)] = SymByte{parent, (uint16_t)i};
}
static void copyMem(uint64_t dst, uint64_t src, uint64_t n) {
  if (!n) return;
  Obj* so = access(src, n, false);
  Obj* dobj = access(dst, n, true);
  std::vector<std::pair<uint32_t, SymByte>> tmp;
  uint64_t soff = src - so->base, doff = dst - dobj->base;
  if (so->sym && !so->sym->empty())
    for (auto it = so->sym->lower_bound((uint32_t)soff); it != so->sym->end() && it->first < soff + n; ++it)
      tmp.push_back({(uint32_t)(it->first - soff + doff), it->second});
  memmove((void*)dst, (void*)src, n);
  eraseSym(dobj, doff, n);
  if (!tmp.empty()) {
    if (!dobj->sym) dobj->sym = new SymMap();
    for (auto& e : tmp) (*dobj->sym)[e.first] = e.second;
  }
}
static std::string readCStr(uint64_t addr, size_t maxLen = 4096) {
  std::string s;
  for (size_t i = 0; i < maxLen; ++i) {
    Obj* o = objAt(addr + i);
    if (!o || o->freed || addr + i >= o->base + o->size) break;
    char ch = *(char*)(addr + i);
    if (!ch) break;
    s += ch;
  }
  return s;
}

// ------------------------------------------------------------------------------------------
// constants and globals
// ------------------------------------------------------------------------------------------
static Val constVal(const Constant* c);
static Val mkAgg(std::vector<Val>&& items) {
  AGGS.push_back(std::move(items));
  Val v; v.k = K_AGG; v.s = (uint32_t)(AGGS.size() - 1);
  return v;
}
static unsigned typeWidth(Type* t) {
  if (t->isIntegerTy()) return t->getIntegerBitWidth();
  if (t->isPointerTy()) return 64;
  if (t->isFloatTy()) return 32;
  if (t->isDoubleTy()) return 64;
  return 0;
}
static Val zeroOf(Type* t) {
  if (t->isStructTy() || t->isArrayTy()) {
    std::vector<Val> items;
    unsigned n = t->isStructTy() ? t->getStructNumElements() : (unsigned)t->getArrayNumElements();
    for (unsigned i = 0; i < n; ++i) items.push_back(zeroOf(t->isStructTy() ? t->getStructElementType(i) : t->getArrayElementType()));
    return mkAgg(std::move(items));
  }
  Val v = mkInt(0, typeWidth(t));
  if (t->isFloatingPointTy()) v.k = K_FP;
  return v;
}
static uint64_t globalAddr(const GlobalValue* g) {
  if (auto* f = dyn_cast<Function>(g)) {
    auto it = FMAP.find(f);
    if (it == FMAP.end()) { fprintf(stderr, "cxsym: unknown function %s\n", f->getName().str().c_str()); exit(3); }
    return it->second->addr;
  }
  if (auto* gv = dyn_cast<GlobalVariable>(g)) {
    auto it = GADDR.find(gv);
    if (it == GADDR.end()) { fprintf(stderr, "cxsym: global %s without address\n", gv->getName().str().c_str()); exit(3); }
    return it->second;
  }
  if (auto* ga = dyn_cast<GlobalAlias>(g)) return constVal(ga->getAliasee()).c;
  fprintf(stderr, "cxsym: unsupported global kind\n");
  exit(3);
}
static Val constVal(const Constant* c) {
  Type* t = c->getType();
  if (auto* ci = dyn_cast<ConstantInt>(c)) {
    if (ci->getBitWidth() > 64) { fprintf(stderr, "cxsym: wide integer constant\n"); exit(3); }
    return mkInt(ci->getZExtValue(), ci->getBitWidth());
  }
  if (isa<ConstantPointerNull>(c)) return mkPtr(0);
  if (auto* gv = dyn_cast<GlobalValue>(c)) return mkPtr(globalAddr(gv));
  if (auto* cf = dyn_cast<ConstantFP>(c)) {
    Val v; v.k = K_FP;
    if (t->isFloatTy()) { float f = cf->getValueAPF().convertToFloat(); uint32_t b; memcpy(&b, &f, 4); v.c = b; v.w = 32; }
    else if (t->isDoubleTy()) { double d = cf->getValueAPF().convertToDouble(); memcpy(&v.c, &d, 8); v.w = 64; }
    else { fprintf(stderr, "cxsym: unsupported fp constant type\n"); exit(3); }
    return v;
  }
  if (isa<UndefValue>(c)) {  // includes poison
    Val v = zeroOf(t);
    if (isa<PoisonValue>(c) && v.k != K_AGG) v.poison = 1;
    return v;
  }
  if (isa<ConstantAggregateZero>(c)) return zeroOf(t);
  if (auto* ca = dyn_cast<ConstantAggregate>(c)) {
    std::vector<Val> items;
    for (unsigned i = 0; i < ca->getNumOperands(); ++i) items.push_back(constVal(ca->getOperand(i)));
    return mkAgg(std::move(items));
  }
  if (auto* cd = dyn_cast<ConstantDataSequential>(c)) {
    std::vector<Val> items;
    for (unsigned i = 0; i < cd->getNumElements(); ++i) items.push_back(constVal(cd->getElementAsConstant(i)));
    return mkAgg(std::move(items));
  }
  if (auto* ce = dyn_cast<ConstantExpr>(c)) {
    switch (ce->getOpcode()) {
    case Instruction::BitCast: case Instruction::AddrSpaceCast: {
      Val v = constVal(ce->getOperand(0));
      return v;
    }
    case Instruction::PtrToInt: case Instruction::IntToPtr: case Instruction::ZExt: case Instruction::Trunc:
      return mkInt(constVal(ce->getOperand(0)).c, typeWidth(t));
    case Instruction::SExt: {
      Val v = constVal(ce->getOperand(0));
      return mkInt((uint64_t)sextW(v.c, v.w), typeWidth(t));
    }
    case Instruction::GetElementPtr: {
      auto* g = cast<GEPOperator>(ce);
      APInt off(64, 0);
      if (!g->accumulateConstantOffset(*DL, off)) { fprintf(stderr, "cxsym: non-constant gep constexpr\n"); exit(3); }
      return mkPtr(constVal(cast<Constant>(g->getPointerOperand())).c + off.getSExtValue());
    }
    case Instruction::Add: return mkInt(constVal(ce->getOperand(0)).c + constVal(ce->getOperand(1)).c, typeWidth(t));
    case Instruction::Sub: return mkInt(constVal(ce->getOperand(0)).c - constVal(ce->getOperand(1)).c, typeWidth(t));
    case Instruction::Mul: return mkInt(constVal(ce->getOperand(0)).c * constVal(ce->getOperand(1)).c, typeWidth(t));
    case Instruction::And: return mkInt(constVal(ce->getOperand(0)).c & constVal(ce->getOperand(1)).c, typeWidth(t));
    case Instruction::Or: return mkInt(constVal(ce->getOperand(0)).c | constVal(ce->getOperand(1)).c, typeWidth(t));
    case Instruction::ICmp: {
      uint64_t a = constVal(ce->getOperand(0)).c, b = constVal(ce->getOperand(1)).c;
      switch (ce->getPredicate()) {
      case CmpInst::ICMP_EQ: return mkInt(a == b, 1);
      case CmpInst::ICMP_NE: return mkInt(a != b, 1);
      default: break;
      }
      break;
    }
    case Instruction::Select: {
      Val cnd = constVal(ce->getOperand(0));
      return constVal(ce->getOperand(cnd.c ? 1 : 2));
    }
    default: break;
    }
    std::string s; raw_string_ostream os(s); ce->print(os);
    fprintf(stderr, "cxsym: unsupported constant expression %s\n", s.c_str());
    exit(3);
  }
  if (isa<BlockAddress>(c)) { fprintf(stderr, "cxsym: blockaddress unsupported\n"); exit(3); }
  std::string s; raw_string_ostream os(s); c->print(os);
  fprintf(stderr, "cxsym: unsupported constant %s\n", s.c_str());
  exit(3);
}
static void writeConst(const Constant* c, uint64_t addr) {
  Type* t = c->getType();
  if (isa<ConstantAggregateZero>(c) || isa<UndefValue>(c)) return;
  if (auto* cd = dyn_cast<ConstantDataSequential>(c)) {
    StringRef raw = cd->getRawDataValues();
    memcpy((void*)addr, raw.data(), raw.size());
    return;
  }
  if (auto* cs = dyn_cast<ConstantStruct>(c)) {
    const StructLayout* sl = DL->getStructLayout(cast<StructType>(t));
    for (unsigned i = 0; i < cs->getNumOperands(); ++i) writeConst(cs->getOperand(i), addr + sl->getElementOffset(i));
    return;
  }
  if (auto* ca = dyn_cast<ConstantArray>(c)) {
    uint64_t es = DL->getTypeAllocSize(t->getArrayElementType());
    for (unsigned i = 0; i < ca->getNumOperands(); ++i) writeConst(ca->getOperand(i), addr + i * es);
    return;
  }
  Val v = constVal(c);
  uint64_t n = DL->getTypeStoreSize(t);
  memcpy((void*)addr, &v.c, n > 8 ? 8 : n);
}

// ------------------------------------------------------------------------------------------
// decoding
// ------------------------------------------------------------------------------------------
static Handler intrinsicHandler(Function* f);

static void decode(CFunc* cf) {
  Function* F = cf->F;
  cf->decoded = true;
  std::unordered_map<const Value*, uint32_t> slot;
  uint32_t ns = 0;
  for (auto& a : F->args()) slot[&a] = ns++;
  std::unordered_map<const BasicBlock*, uint32_t> bbStart;
  uint32_t n = 0;
  for (auto& bb : *F) {
    bbStart[&bb] = n;
    for (auto& I : bb) {
      if (!I.getType()->isVoidTy()) slot[&I] = ns++;
      if (!isa<PHINode>(I)) ++n;
    }
  }
  cf->nslots = ns;
  cf->insts.resize(n);
  auto mkOp = [&](Value* v) -> Opnd {
    Opnd o;
    if (isa<Argument>(v) || isa<Instruction>(v)) { o.slot = slot.at(v); return o; }
    if (auto* c = dyn_cast<Constant>(v)) { o.cv = constVal(c); return o; }
    return o;  // basic blocks, metadata, inline asm: not used as values
  };
  auto mkSucc = [&](BasicBlock* from, BasicBlock* to) -> Succ {
    Succ s; s.pc = bbStart.at(to);
    for (auto& I : *to) {
      auto* phi = dyn_cast<PHINode>(&I);
      if (!phi) break;
      PhiMove pm; pm.dst = slot.at(phi); pm.src = mkOp(phi->getIncomingValueForBlock(from));
      s.phis.push_back(pm);
    }
    return s;
  };
  uint32_t k = 0;
  for (auto& bb : *F)
    for (auto& I : bb) {
      if (isa<PHINode>(I)) continue;
      CInst& in = cf->insts[k++];
      in.I = &I;
      in.op = I.getOpcode();
      if (!I.getType()->isVoidTy()) { in.dst = slot.at(&I); in.w = typeWidth(I.getType()); }
      in.ty = I.getType();
      if (auto* br = dyn_cast<BranchInst>(&I)) {
        if (br->isConditional()) in.ops.push_back(mkOp(br->getCondition()));
        for (unsigned i = 0; i < br->getNumSuccessors(); ++i) in.succ.push_back(mkSucc(&bb, br->getSuccessor(i)));
        continue;
      }
      if (auto* sw = dyn_cast<SwitchInst>(&I)) {
        in.ops.push_back(mkOp(sw->getCondition()));
        in.succ.push_back(mkSucc(&bb, sw->getDefaultDest()));
        for (auto& cs : sw->cases()) {
          in.caseVals.push_back(cs.getCaseValue()->getZExtValue());
          in.succ.push_back(mkSucc(&bb, cs.getCaseSuccessor()));
        }
        continue;
      }
      if (auto* cb = dyn_cast<CallBase>(&I)) {
        for (auto& a : cb->args()) in.ops.push_back(mkOp(a.get()));
        Function* callee = dyn_cast<Function>(cb->getCalledOperand()->stripPointerCasts());
        if (callee) {
          if (callee->isDeclaration()) {
            in.iid = callee->getIntrinsicID();
            auto it = HANDLERS.find(callee->getName().str());
            if (it != HANDLERS.end()) in.ext = it->second;
            else in.ext = intrinsicHandler(callee);
          } else in.callee = FMAP.at(callee);
        } else in.ops.push_back(mkOp(cb->getCalledOperand()));  // indirect: callee is the last operand
        if (auto* inv = dyn_cast<InvokeInst>(&I)) {
          in.succ.push_back(mkSucc(&bb, inv->getNormalDest()));
          in.succ.push_back(mkSucc(&bb, inv->getUnwindDest()));
        }
        continue;
      }
      if (auto* gep = dyn_cast<GetElementPtrInst>(&I)) {
        in.gep = new GepInfo();
        in.ops.push_back(mkOp(gep->getPointerOperand()));
        for (gep_type_iterator gi = gep_type_begin(gep), ge = gep_type_end(gep); gi != ge; ++gi) {
          Value* idx = gi.getOperand();
          if (StructType* st = gi.getStructTypeOrNull()) {
            in.gep->constOff += DL->getStructLayout(st)->getElementOffset(cast<ConstantInt>(idx)->getZExtValue());
          } else {
            uint64_t es = DL->getTypeAllocSize(gi.getIndexedType());
            if (auto* ci = dyn_cast<ConstantInt>(idx)) in.gep->constOff += ci->getSExtValue() * (int64_t)es;
            else { in.ops.push_back(mkOp(idx)); in.gep->var.push_back({(unsigned)in.ops.size() - 1, es}); }
          }
        }
        continue;
      }
      for (unsigned i = 0; i < I.getNumOperands(); ++i) in.ops.push_back(mkOp(I.getOperand(i)));
      if (auto* cmp = dyn_cast<CmpInst>(&I)) in.aux = cmp->getPredicate();
      if (auto* ld = dyn_cast<LoadInst>(&I)) in.size = DL->getTypeStoreSize(ld->getType());
      if (auto* st = dyn_cast<StoreInst>(&I)) { in.size = DL->getTypeStoreSize(st->getValueOperand()->getType()); in.ty = st->getValueOperand()->getType(); }
      if (auto* al = dyn_cast<AllocaInst>(&I)) { in.size = DL->getTypeAllocSize(al->getAllocatedType()); in.aux = al->getAlign().value(); }
      if (auto* ev = dyn_cast<ExtractValueInst>(&I)) in.idxs.assign(ev->idx_begin(), ev->idx_end());
      if (auto* iv = dyn_cast<InsertValueInst>(&I)) in.idxs.assign(iv->idx_begin(), iv->idx_end());
      if (auto* ob = dyn_cast<OverflowingBinaryOperator>(&I)) in.aux = (ob->hasNoSignedWrap() ? 1 : 0) | (ob->hasNoUnsignedWrap() ? 2 : 0);
      if (auto* pe = dyn_cast<PossiblyExactOperator>(&I)) in.aux = pe->isExact() ? 4 : 0;
      if (auto* rmw = dyn_cast<AtomicRMWInst>(&I)) { in.aux = rmw->getOperation(); in.size = DL->getTypeStoreSize(rmw->getValOperand()->getType()); }
    }
}

// ------------------------------------------------------------------------------------------
// arithmetic
// ------------------------------------------------------------------------------------------
static Z3_ast asBv(const Val& v) {  // width-1 values as bv1
  if (v.w == 1) return v.s ? Z3_mk_ite(Z, SYM[v.s], Z3_mk_unsigned_int64(Z, 1, bvs(1)), Z3_mk_unsigned_int64(Z, 0, bvs(1))) : Z3_mk_unsigned_int64(Z, v.c & 1, bvs(1));
  return A(v);
}
static Val fromBv1(Z3_ast a) { return S(Z3_mk_eq(Z, a, Z3_mk_unsigned_int64(Z, 1, bvs(1))), 1); }

static Val binop(unsigned opc, const Val& a, const Val& b, unsigned flags, const char* fname) {
  unsigned w = a.w;
  Val r;
  if (!a.s && !b.s) {
    uint64_t x = a.c, y = b.c, m = maskW(w), z = 0;
    int64_t sx = sextW(x, w), sy = sextW(y, w);
    bool ovf = false;
    switch (opc) {
    case Instruction::Add: z = x + y;
      if (flags & 1) { __int128 t = (__int128)sx + sy; ovf |= t != (__int128)sextW((uint64_t)t, w); }
      if (flags & 2) { ovf |= ((x + y) & m) < x; }
      break;
    case Instruction::Sub: z = x - y;
      if (flags & 1) { __int128 t = (__int128)sx - sy; ovf |= t != (__int128)sextW((uint64_t)t, w); }
      if (flags & 2) ovf |= y > x;
      break;
    case Instruction::Mul: z = x * y;
      if (flags & 1) { __int128 t = (__int128)sx * sy; ovf |= t != (__int128)sextW((uint64_t)t, w); }
      if (flags & 2) { unsigned __int128 t = (unsigned __int128)x * y; ovf |= t > m; }
      break;
    case Instruction::UDiv: if (!y) fatalFailure("div-zero", "", fname); z = x / y; break;
    case Instruction::URem: if (!y) fatalFailure("div-zero", "", fname); z = x % y; break;
    case Instruction::SDiv:
      if (!y) fatalFailure("div-zero", "", fname);
      if (sy == -1 && x == (1ULL << (w - 1))) fatalFailure("overflow", "sdiv", fname);
      z = (uint64_t)(sx / sy); break;
    case Instruction::SRem:
      if (!y) fatalFailure("div-zero", "", fname);
      if (sy == -1) z = 0; else z = (uint64_t)(sx % sy);
      break;
    case Instruction::Shl: if (y >= w) { r = mkInt(0, w); r.poison = 1; return r; } z = x << y;
      if (flags & 1) ovf |= sextW(z, w) >> y != sx;
      if (flags & 2) ovf |= ((z & m) >> y) != x;
      break;
    case Instruction::LShr: if (y >= w) { r = mkInt(0, w); r.poison = 1; return r; } z = x >> y; break;
    case Instruction::AShr: if (y >= w) { r = mkInt(0, w); r.poison = 1; return r; } z = (uint64_t)(sx >> y); break;
    case Instruction::And: z = x & y; break;
    case Instruction::Or: z = x | y; break;
    case Instruction::Xor: z = x ^ y; break;
    default: unsupported("binop");
    }
    r = mkInt(z, w);
    r.poison = a.poison | b.poison;
    if (ovf) {
      r.poison = 1;
      if (OPT.checkOverflow && (flags & 1)) { SH->ovfCandidates++; reportFailure("overflow", Instruction::getOpcodeName(opc), std::string("signed overflow (nsw) in ") + fname, nullptr); }
    }
    return r;
  }
  // symbolic
  if (w == 1) {
    Z3_ast x = A(a), y = A(b), z;
    switch (opc) {
    case Instruction::And: case Instruction::Mul: { Z3_ast xs[2] = {x, y}; z = Z3_mk_and(Z, 2, xs); break; }
    case Instruction::Or: { Z3_ast xs[2] = {x, y}; z = Z3_mk_or(Z, 2, xs); break; }
    case Instruction::Xor: case Instruction::Add: case Instruction::Sub: z = Z3_mk_xor(Z, x, y); break;
    default: unsupported("i1 binop");
    }
    r = S(z, 1);
    return r;
  }
  // cheap identities that keep expressions small
  if (!b.s) {
    if ((opc == Instruction::Add || opc == Instruction::Sub || opc == Instruction::Or || opc == Instruction::Xor || opc == Instruction::Shl ||
         opc == Instruction::LShr || opc == Instruction::AShr) && b.c == 0) return a;
    if (opc == Instruction::Mul && b.c == 1) return a;
    if ((opc == Instruction::Mul || opc == Instruction::And) && b.c == 0) return mkInt(0, w);
    if (opc == Instruction::And && b.c == maskW(w)) return a;
  }
  if (!a.s) {
    if ((opc == Instruction::Add || opc == Instruction::Or || opc == Instruction::Xor) && a.c == 0) return b;
    if (opc == Instruction::Mul && a.c == 1) return b;
    if ((opc == Instruction::Mul || opc == Instruction::And) && a.c == 0) return mkInt(0, w);
  }
  Z3_ast x = A(a), y = A(b), z;
  switch (opc) {
  case Instruction::Add: z = Z3_mk_bvadd(Z, x, y);
    if (OPT.checkOverflow && (flags & 1)) {
      Z3_ast ok[2] = {Z3_mk_bvadd_no_overflow(Z, x, y, true), Z3_mk_bvadd_no_underflow(Z, x, y)};
      checkNever(Z3_mk_not(Z, Z3_mk_and(Z, 2, ok)), "overflow", "add", std::string("signed overflow (nsw) in ") + fname);
    }
    break;
  case Instruction::Sub: z = Z3_mk_bvsub(Z, x, y);
    if (OPT.checkOverflow && (flags & 1)) {
      Z3_ast ok[2] = {Z3_mk_bvsub_no_overflow(Z, x, y), Z3_mk_bvsub_no_underflow(Z, x, y, true)};
      checkNever(Z3_mk_not(Z, Z3_mk_and(Z, 2, ok)), "overflow", "sub", std::string("signed overflow (nsw) in ") + fname);
    }
    break;
  case Instruction::Mul: z = Z3_mk_bvmul(Z, x, y);
    if (OPT.checkOverflow && (flags & 1)) {
      Z3_ast ok[2] = {Z3_mk_bvmul_no_overflow(Z, x, y, true), Z3_mk_bvmul_no_underflow(Z, x, y)};
      checkNever(Z3_mk_not(Z, Z3_mk_and(Z, 2, ok)), "overflow", "mul", std::string("signed overflow (nsw) in ") + fname);
    }
    break;
  case Instruction::UDiv: case Instruction::URem: case Instruction::SDiv: case Instruction::SRem:
    if (b.s) checkNever(Z3_mk_eq(Z, y, numAst(0, w)), "div-zero", "", fname);
    else if (!b.c) fatalFailure("div-zero", "", fname);
    if (opc == Instruction::SDiv) {
      Z3_ast bad[2] = {Z3_mk_eq(Z, x, numAst(1ULL << (w - 1), w)), Z3_mk_eq(Z, y, numAst(maskW(w), w))};
      checkNever(Z3_mk_and(Z, 2, bad), "overflow", "sdiv", fname);
    }
    z = opc == Instruction::UDiv ? Z3_mk_bvudiv(Z, x, y) : opc == Instruction::URem ? Z3_mk_bvurem(Z, x, y)
      : opc == Instruction::SDiv ? Z3_mk_bvsdiv(Z, x, y) : Z3_mk_bvsrem(Z, x, y);
    break;
  case Instruction::Shl: case Instruction::LShr: case Instruction::AShr:
    if (b.s) checkNever(Z3_mk_bvuge(Z, y, numAst(w, w)), "shift", "", std::string("shift amount >= width in ") + fname);
    z = opc == Instruction::Shl ? Z3_mk_bvshl(Z, x, y) : opc == Instruction::LShr ? Z3_mk_bvlshr(Z, x, y) : Z3_mk_bvashr(Z, x, y);
    break;
  case Instruction::And: z = Z3_mk_bvand(Z, x, y); break;
  case Instruction::Or: z = Z3_mk_bvor(Z, x, y); break;
  case Instruction::Xor: z = Z3_mk_bvxor(Z, x, y); break;
  default: unsupported("binop");
  }
  r = S(z, w);
  r.poison = a.poison | b.poison;
  return r;
}

static Val icmp(unsigned pred, const Val& a, const Val& b) {
  unsigned w = a.w;
  if (!a.s && !b.s) {
    uint64_t x = a.c, y = b.c;
    int64_t sx = sextW(x, w), sy = sextW(y, w);
    bool r = false;
    switch (pred) {
    case CmpInst::ICMP_EQ: r = x == y; break;
    case CmpInst::ICMP_NE: r = x != y; break;
    case CmpInst::ICMP_UGT: r = x > y; break;
    case CmpInst::ICMP_UGE: r = x >= y; break;
    case CmpInst::ICMP_ULT: r = x < y; break;
    case CmpInst::ICMP_ULE: r = x <= y; break;
    case CmpInst::ICMP_SGT: r = sx > sy; break;
    case CmpInst::ICMP_SGE: r = sx >= sy; break;
    case CmpInst::ICMP_SLT: r = sx < sy; break;
    case CmpInst::ICMP_SLE: r = sx <= sy; break;
    default: unsupported("icmp predicate");
    }
    Val v = mkInt(r, 1);
    v.poison = a.poison | b.poison;
    return v;
  }
  Z3_ast x = A(a), y = A(b), z;
  if (w == 1) {
    switch (pred) {
    case CmpInst::ICMP_EQ: z = Z3_mk_iff(Z, x, y); break;
    case CmpInst::ICMP_NE: z = Z3_mk_xor(Z, x, y); break;
    default: x = asBv(a); y = asBv(b); z = nullptr; break;
    }
    if (z) return S(z, 1);
  }
  // canonical atoms (eq with ordered operands, ult, slt) so that equivalent comparisons share one ast
  // and are decided once per path (see decide(): `not` is looked through)
  auto eq = [&](Z3_ast p, Z3_ast q) { return Z3_get_ast_id(Z, p) <= Z3_get_ast_id(Z, q) ? Z3_mk_eq(Z, p, q) : Z3_mk_eq(Z, q, p); };
  switch (pred) {
  case CmpInst::ICMP_EQ: z = eq(x, y); break;
  case CmpInst::ICMP_NE: z = Z3_mk_not(Z, eq(x, y)); break;
  case CmpInst::ICMP_UGT: z = Z3_mk_bvult(Z, y, x); break;
  case CmpInst::ICMP_UGE: z = Z3_mk_not(Z, Z3_mk_bvult(Z, x, y)); break;
  case CmpInst::ICMP_ULT: z = Z3_mk_bvult(Z, x, y); break;
  case CmpInst::ICMP_ULE: z = Z3_mk_not(Z, Z3_mk_bvult(Z, y, x)); break;
  case CmpInst::ICMP_SGT: z = Z3_mk_bvslt(Z, y, x); break;
  case CmpInst::ICMP_SGE: z = Z3_mk_not(Z, Z3_mk_bvslt(Z, x, y)); break;
  case CmpInst::ICMP_SLT: z = Z3_mk_bvslt(Z, x, y); break;
  case CmpInst::ICMP_SLE: z = Z3_mk_not(Z, Z3_mk_bvslt(Z, y, x)); break;
  default: unsupported("icmp predicate");
  }
  Val v = S(z, 1);
  v.poison = a.poison | b.poison;
  return v;
}
static Val castInt(unsigned opc, const Val& a, unsigned w) {
  if (!a.s) {
    Val r;
    switch (opc) {
    case Instruction::Trunc: case Instruction::ZExt: case Instruction::PtrToInt: case Instruction::IntToPtr: r = mkInt(a.c, w); break;
    case Instruction::SExt: r = mkInt((uint64_t)sextW(a.c, a.w), w); break;
    default: unsupported("cast");
    }
    r.poison = a.poison;
    return r;
  }
  Z3_ast x = SYM[a.s], z;
  switch (opc) {
  case Instruction::Trunc:
    if (w == 1) z = Z3_mk_eq(Z, Z3_mk_extract(Z, 0, 0, x), Z3_mk_unsigned_int64(Z, 1, bvs(1)));
    else z = Z3_mk_extract(Z, w - 1, 0, x);
    break;
  case Instruction::ZExt: case Instruction::PtrToInt: case Instruction::IntToPtr:
    if (a.w == 1) z = Z3_mk_ite(Z, x, numAst(1, w), numAst(0, w));
    else if (w > a.w) z = Z3_mk_zero_ext(Z, w - a.w, x);
    else if (w < a.w) z = Z3_mk_extract(Z, w - 1, 0, x);
    else z = x;
    break;
  case Instruction::SExt:
    if (a.w == 1) z = Z3_mk_ite(Z, x, numAst(maskW(w), w), numAst(0, w));
    else z = Z3_mk_sign_ext(Z, w - a.w, x);
    break;
  default: unsupported("cast");
  }
  Val r = S(z, w);
  r.poison = a.poison;
  return r;
}
static Val iteVal(const Val& c, const Val& a, const Val& b) {
  // c symbolic, a/b K_INT of equal width
  Z3_ast z = Z3_mk_ite(Z, SYM[c.s], A(a), A(b));
  return S(z, a.w);
}
static double asDouble(const Val& v) {
  if (v.w == 32) { float f; uint32_t b = (uint32_t)v.c; memcpy(&f, &b, 4); return f; }
  double d; memcpy(&d, &v.c, 8); return d;
}
static Val mkFP(double d, unsigned w) {
  Val v; v.k = K_FP; v.w = (uint16_t)w;
  if (w == 32) { float f = (float)d; uint32_t b; memcpy(&b, &f, 4); v.c = b; }
  else memcpy(&v.c, &d, 8);
  return v;
}
