#!/usr/bin/env python3
"""Build helpers shared by bin/setup and bin/check.

Everything is regenerated from /repo's *current working tree*: the cache key is a content hash
of every file under /repo/ccl that a library TU can include, so an edited tree always rebuilds.
Nothing a registered command needs lives under /tmp.
"""
import hashlib, json, os, subprocess, sys, time, shutil
from concurrent.futures import ThreadPoolExecutor

VERIF = os.path.dirname(os.path.dirname(os.path.abspath(__file__)))
REPO = os.environ.get("VERIF_REPO", "/repo")
CCL = os.path.join(REPO, "ccl")
BUILD = os.environ.get("VERIF_BUILD", os.path.join(VERIF, "build"))   # scratch builds (bin/seedtest) use their own directory
ENGINE = os.path.join(VERIF, "build", "cxsym")
GUARD = "CCL_VERIF"

TUS = [
    "core/unity/CCL.cpp",
    "cclGraph/src/CGraph.cpp",
    "rslang/unity/RSlang.cpp",
    "rslang/unity/RSlang2.cpp",
    "rslang/unity/reflex_unity1.cpp",
    "rslang/unity/reflex_unity2.cpp",
    "cclLang/unity/cclLang.cpp",
]
INCS = ("cclCommons/include cclGraph/include cclLang/include rslang/include core/include "
        "core/import/include core/header cclGraph/header cclGraph/import/include rslang/header "
        "rslang/import/include rslang/import/reflex/include cclLang/header cclLang/import/include").split()

IRFLAGS = ["-std=c++20", "-O1", "-DNDEBUG", "-D" + GUARD, "-fno-vectorize", "-fno-slp-vectorize",
           "-fno-unroll-loops", "-fno-builtin", "-w"]
NATFLAGS = ["-std=c++20", "-O1", "-g1", "-DNDEBUG", "-D" + GUARD, "-w",
            "-fsanitize=address,undefined", "-fno-sanitize-recover=undefined", "-fno-omit-frame-pointer"]


def incflags():
    return [f"-I{CCL}/{d}" for d in INCS] + [f"-I{CCL}/core/test/utils"]


def run(cmd, **kw):
    r = subprocess.run(cmd, stdout=subprocess.PIPE, stderr=subprocess.STDOUT, text=True, **kw)
    if r.returncode != 0:
        sys.stderr.write("FAILED: " + " ".join(cmd) + "\n" + r.stdout[-6000:] + "\n")
        raise SystemExit(3)
    return r.stdout


def tree_hash():
    h = hashlib.sha256()
    files = []
    for root, dirs, fs in os.walk(CCL):
        dirs[:] = [d for d in dirs if d not in ("test", ".git")]
        for f in fs:
            if f.endswith((".cpp", ".h", ".hpp", ".l", ".y", ".hh", ".inl", ".ipp")):
                files.append(os.path.join(root, f))
    for p in sorted(files):
        h.update(os.path.relpath(p, CCL).encode())
        with open(p, "rb") as fh:
            h.update(hashlib.sha256(fh.read()).digest())
    h.update(" ".join(IRFLAGS + NATFLAGS).encode())
    return h.hexdigest()[:20]


def _prune(kind, keep):
    """keep the current tree's cache entry and the most recent other one (disk space)"""
    d = os.path.join(BUILD, kind)
    if not os.path.isdir(d):
        return
    others = sorted((e for e in os.listdir(d) if e != keep), key=lambda e: os.path.getmtime(os.path.join(d, e)), reverse=True)
    for e in others[1:]:
        shutil.rmtree(os.path.join(d, e), ignore_errors=True)


def build_lib_bc(th=None):
    """library bitcode (all 7 TUs linked) for the current /repo tree; returns path"""
    th = th or tree_hash()
    out = os.path.join(BUILD, "bc", th)
    lib = os.path.join(out, "lib.bc")
    if os.path.exists(lib):
        return lib
    _prune("bc", th)
    os.makedirs(out, exist_ok=True)

    def one(tu):
        o = os.path.join(out, tu.replace("/", "_") + ".bc")
        run(["clang++-14"] + IRFLAGS + incflags() + ["-c", "-emit-llvm", os.path.join(CCL, tu), "-o", o])
        return o
    with ThreadPoolExecutor(8) as ex:
        objs = list(ex.map(one, TUS))
    run(["llvm-link-14", "-o", lib + ".tmp"] + objs)
    os.rename(lib + ".tmp", lib)
    return lib


def build_lib_native(th=None):
    """native ASan+UBSan archive of the library for replay; returns path"""
    th = th or tree_hash()
    out = os.path.join(BUILD, "nat", th)
    lib = os.path.join(out, "libccl.a")
    if os.path.exists(lib):
        return lib
    _prune("nat", th)
    os.makedirs(out, exist_ok=True)

    def one(tu):
        o = os.path.join(out, tu.replace("/", "_") + ".o")
        run(["clang++-14"] + NATFLAGS + incflags() + ["-c", os.path.join(CCL, tu), "-o", o])
        return o
    with ThreadPoolExecutor(8) as ex:
        objs = list(ex.map(one, TUS))
    if os.path.exists(lib):
        os.remove(lib)
    run(["ar", "rcs", lib] + objs)
    return lib


if __name__ == "__main__":
    t = time.time()
    th = tree_hash()
    with ThreadPoolExecutor(2) as ex:
        a = ex.submit(build_lib_bc, th)
        b = ex.submit(build_lib_native, th) if "--native" in sys.argv else None
        print(a.result())
        if b:
            print(b.result())
    print("hash", th, "%.1fs" % (time.time() - t))
